#!/usr/bin/env python3
"""rewrite the per-change table at the end of DESIGN.md section 17 from seeded/*/meta.json"""
import json, glob, os
rows=[]
for d in sorted(glob.glob('/verif/seeded/*_*')):
    m=json.load(open(d+'/meta.json'))
    notes=open(d+'/notes.md').read().strip().split('\n') if os.path.exists(d+'/notes.md') else ['']
    first=' '.join(x.strip('# *-') for x in notes[:3])[:220].replace('|','/')
    rows.append((os.path.basename(d), ', '.join(m.get('caught_by',[])) or 'NOT CAUGHT', first))
p='/verif/DESIGN.md'; s=open(p).read()
a=s.index("Per-change results (own check, quick tier):"); b=s.index("## 18. ")
new="Per-change results (own check, quick tier):\n\n| change | caught by | what it is (from the author's notes) |\n|---|---|---|\n"
for n,c,f in rows:
    new+=f'| {n} | {c} | {f} |\n'
new+='\n'
s=s[:a]+new+s[b:]
open(p,'w').write(s)
print(len(rows), 'rows;', sum(1 for r in rows if r[1]=='NOT CAUGHT'), 'not caught')
