#!/bin/bash
# tools/sweep.sh <tier> [seed]: every claimed check at one base seed, results into ./sweep_out (not evidence/)
tier=${1:-quick}; seed=${2:-0}
cd "$(dirname "$0")/.."
mkdir -p sweep_out
for p in C04 C05 C06 C07 C11 C12 C13 C15 C16 C17 C19 C20; do
  VERIF_SEED=$seed VERIF_OUT=$PWD/sweep_out timeout 2400 /venv/bin/python run_check.py $p $tier 2>&1 | grep -E "VIOLATION|HARNESS|KNOWN|^\[|clause=|expected=|observed="
  echo "exit($p)=${PIPESTATUS[0]}"
done
echo SWEEPDONE
