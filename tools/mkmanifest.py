#!/usr/bin/env python3
"""regenerates /verif/MANIFEST.json from the table below (keeps it schema-valid)"""
import json, os

NA = {
 "C01": "pure function of (target, path): no schedule, history, clock or fault in the statement; deciding it is input generation, not simulation (DESIGN.md section 5)",
 "C02": "pure function of (T expression, target); quantifier is inputs/programs only (DESIGN.md section 5)",
 "C03": "compositionality of one call's result in its sub-specs; SKIP/STOP are values, not faults (DESIGN.md section 5)",
 "C08": "mode scoping is determined by the spec tree alone; its 'configurations' are wrapper nestings, not deployments (DESIGN.md section 5)",
 "C09": "relation over (pattern, target) pairs of a single call (DESIGN.md section 5)",
 "C10": "truth-table property of (combinator tree, target) (DESIGN.md section 5)",
 "C14": "one traversal of one input graph; termination bound is a loop bound, not liveness after faults (DESIGN.md section 5)",
 "C18": "algebraic round-trip laws of immutable values (DESIGN.md section 5)",
}

CHECKS = {
 "C11": dict(level="fault_enumeration", engine="faultsim", design="4/C11",
   text="per sampled assignment item the fault-free run is compared with a plain-Python reference edit on a shadow graph; then every collaborator point (accessors, mutators, factories, value specs) is failed in turn with an Exception and a BaseException class, and for a seeded share of items every line event inside glom is a crash point (all of them up to 300/800): error => target identical (ids, contents, sharing); otherwise state before or complete, never partial.",
   note="trusts: models/pathedit.py as the corresponding plain-Python assignment; collaborators fail atomically; wildcard assignments are not required to be atomic",
   technique="deterministic simulation with enumerated crash points (collaborator faults + sys.settrace line crashes), reference-model + snapshot oracle"),
 "C12": dict(level="fault_enumeration", engine="faultsim", design="4/C12",
   text="as C11 with del/delattr on the shadow graph: present / cleanly missing final / missing parent / other classification before the run, all spellings of one address compared, every collaborator point and (seeded share) every line event as crash points.",
   note="trusts: models/pathedit.py as Python's del; addresses that are neither present nor cleanly missing are don't-care between an error and a silent no-op under ignore_missing (target must be unchanged)",
   technique="deterministic simulation with enumerated crash points, reference-model + snapshot oracle"),
 "C13": dict(level="exploration", engine="histsim", design="4/C13",
   text="seeded histories of registry operations (register / look-up / memo drop / new Glommer) over per-run class families on default, Glommer and bare registries, with the iteration order of register_op's set of types owned by the simulator; observed handler must belong to a minimal eligible registered type of a reference registry model; each history re-run in 3 variants (registration order, set order, no intermediate look-ups + memo dropped) whose final look-up batteries must agree; a raising look-up after every quiet one; tagged handlers confirmed end-to-end through the public API, also for two children of different classes under one wildcard; fresh default Glommer vs cold module-level glom on a fixed battery.",
   note="trusts: models/registry.py as the reading of 'nearest registered type' (unrelated minimal candidates unranked, only stable); handler identity observed through TargetRegistry.get_handler and confirmed end-to-end for tagged handlers",
   technique="deterministic simulation of registration/look-up histories with a controlled set-iteration-order seam, reference-model oracle + variant stability"),
 "C15": dict(level="exploration", engine="streamsim+schedsim", design="4/C15",
   text="seeded histories over one reduction spec object (Fold/Sum/Flatten eager+lazy/Merge/flatten(levels)/merge()): sequential re-use, 2-3 evaluations in flight switching at source __iter__/__next__ points, source fault at item j then healthy evaluations, lazy results abandoned, non-iterable targets; every evaluation compared with reduce/sum/chain.from_iterable/dict.update, init() probes counted per evaluation, identity walk for shared accumulators, input snapshots.",
   note="trusts: functools/itertools/dict.update as reference; workload op callables are pure",
   technique="deterministic simulation: re-use histories + seeded interleaving at the source iterator + source faults, reference-reduction oracle"),
 "C16": dict(level="exploration", engine="streamsim+schedsim", design="4/C16",
   text="seeded Group spec trees (1-3 key levels, list leaves and First/Max/Min/Avg/Sum/Count/Flatten/Merge, top-level Limit) evaluated in histories: re-use, interleaving at the item source, re-entrant nesting of the same Group object from a key function, aborted evaluations; every evaluation compared with an incremental bucketing loop. One recorded finding (First() under a key level) is recognised by a transliteration of the pinned STOP protocol and reported as KNOWN-FINDING; any other mismatch is a VIOLATION.",
   note="trusts: the explicit bucketing loop (first-occurrence key order, encounter value order, SKIP drops); Sample() excluded",
   technique="deterministic simulation: re-use / nesting histories + seeded interleaving + source faults, reference-loop oracle"),
 "C17": dict(level="exploration", engine="streamsim", design="4/C17",
   text="seeded Iter/Invoke builder chains over counted, fault-injectable sources (finite and infinite): every-prefix consumers, two live iterators pulled alternately, builder histories, source fault at item j, abandoned consumers; outputs equal the itertools/boltons composition, pulls bounded by the reference pulls + window slack, step budget on infinite sources, base specs unchanged.",
   note="trusts: itertools and boltons iterutils as the definition of the stages; stage callbacks total and SKIP/STOP-free",
   technique="deterministic simulation of lazy pipelines under consumer schedules and source faults, reference-composition oracle with pull counting"),
 "C19": dict(level="exploration", engine="procsim", design="4/C19",
   text="seeded CLI invocations run in-process against a stubbed process boundary (in-memory file system with errno faults, undecodable / truncated / malformed content, stdin that is a tty, closed, failing or undecodable; captured stdout/stderr/exit status), spec and target routed through argv / file / stdin in four target formats; output compared with json.dumps(glom(target, spec)); a seeded sample repeated as real `python -m glom` subprocesses. The 'never executed' clause is input sampling only (tripwires on exec/eval/compile + canary).",
   note="trusts: stub boundary == real boundary (validated on the subprocess sample); stdlib/yaml/toml parsers; 'never executed' is sampled, not decided",
   technique="deterministic simulation of the process boundary with I/O fault injection; differential oracle against the library; input sampling for the no-exec clause"),
 "C20": dict(level="exploration", engine="schedsim", design="4/C20",
   text="seeded search over schedules (baton-passing threads, switches at collaborator points and at source-line events inside glom) and re-entrant nestings; every task compared with the same recipe run alone in a cold private instance (outcome incl. full trace text, and the task's own collaborator-event log); metamorphic variants (nested call replaced by its recorded result; inner error rendered eagerly vs lazily); locks taken by the code under test are simulated (import threading -> glomsim.simthreading), waiting is a scheduling decision and a wait that cannot end is reported as a liveness violation. A clean batch is evidence, not proof.",
   note="trusts: line-granular (not bytecode-granular) pre-emption; the isolated run of the same code as reference; sys.settrace semantics of CPython 3.12; only threading.Lock/RLock are simulated (Condition/Semaphore/Event are the real ones)",
   technique="deterministic simulation: seeded baton scheduler over real threads + line-level pre-emption via sys.settrace + simulated locks with deadlock detection, isolated-equivalence and liveness oracles"),
 "C07": dict(level="exploration", engine="histsim+schedsim", design="4/C07",
   text="seeded histories of top-level calls that share spec objects, Vars objects and scope= dicts, some interleaved by the seeded scheduler or nested re-entrantly; every call's result compared with a lexical-frame reference model evaluated for that call alone (tokens derive from the call's own target, so any leak across calls, siblings or enclosing positions is a mismatch); caller scope mapping and spec graph snapshots before/after.",
   note="trusts: the lexical-frame reference model (glomsim/models/frames.py) as the reading of the statement; where the statement is silent the generator places no readers",
   technique="deterministic simulation of call histories and schedules, reference-model (lexical frames) oracle + snapshots"),
 "C04": dict(level="fault_enumeration", engine="faultsim", design="4/C04",
   text="per sampled workload item every collaborator point of the fault-free run (capped at 30/60) x catalogue classes is executed as a single-fault plan, plus seeded multi-fault plans; each plan as differential twin runs (glom_debug / plain / default x skip_exc) in cold state; clauses: class kept, args kept, GlomError-ness, unrebuildable identity, BaseException untouched, documented subtype per site kind, debug identity, selective default.",
   note="trusts: site kind read from glom frame names/locals on the stack at the fault (unknown stack disables only the documented-subtype clause); determinism of twin runs (self-tested)",
   technique="deterministic simulation with enumerated single-fault injection at every collaborator point + seeded multi-fault plans, differential twin-run oracle"),
 "C05": dict(level="exploration", engine="faultsim", design="4/C05",
   text="per sampled spec tree every probe point of the fault-free run is failed in turn (absorbable and non-absorbable classes) plus multi-fault plans whose first faults are absorbed by enclosing Coalesce/Or/Switch; a spec-tree walker predicts the failure record from the same keyed plan; the real message is parsed structurally and the record must embed in it (root target, ancestors in order, innermost failing spec + target received, attempted branches with their errors); final line compared with a glom_debug twin run.",
   note="trusts: models/trace_walker.py (evaluation order / who catches what for this grammar; model-vs-real outcome divergences are counted, never reported as violations); the check is an embedding, exact text and glyphs are not compared",
   technique="deterministic simulation with enumerated single faults + absorbed-prefix fault sequences, reference-walker + structural trace embedding oracle"),
 "C06": dict(level="exploration", engine="histsim", design="4/C06",
   text="seeded histories (calls, repeats, cache floods with small Path._MAX_CACHE, PATH_STAR toggles, cache drops, registrations, Glommers, aborted calls by collaborator BaseException and by line crashes inside glom, interleaved pairs) in one long-lived private instance; each call compared with a cold instance, plus identity-preserving before/after snapshots of target, spec graph and scope mapping.",
   note="trusts: cold private instance of the same code as reference; snapshot walker (C-level access to containers, __dict__/__slots__ walk of spec objects)",
   technique="deterministic simulation of call histories with fault injection (aborts, line crashes), cold-reference equivalence + frame-condition snapshots"),
}

def main():
    checks = []
    for pid in sorted(CHECKS):
        c = CHECKS[pid]
        checks.append({
            "property_id": pid,
            "quick_cmd": f"cd /verif && timeout 600 /venv/bin/python run_check.py {pid} quick",
            "thorough_cmd": f"cd /verif && timeout 2400 /venv/bin/python run_check.py {pid} thorough",
            "evidence_file": f"/verif/evidence/{pid}.json",
            "replay_cmd_template": "cd /verif && /venv/bin/python run_check.py --replay {path}",
            "engine": c["engine"],
            "level_claimed": {"category": c["level"], "text": c["text"], "design_ref": "DESIGN.md section " + c["design"]},
            "level_note": c["note"],
            "technique": c["technique"],
        })
    engines = {}
    for pid, c in CHECKS.items():
        engines.setdefault(c["engine"], []).append(pid)
    man = {
     "version": 1,
     "setup_cmd": "cd /verif && /venv/bin/python run_check.py --setup",
     "hooks": {
      "guard": "GLOM_VERIF",
      "enable": "no hooks in /repo: every seam is reached from outside (collaborator objects, module globals of private instances, sys.settrace); GLOM_SRC selects the tree under test (default /repo)",
      "baseline_off_cmd": "cd /repo && /venv/bin/python -m pytest -ra -q -p no:cacheprovider --timeout=900 --continue-on-collection-errors",
      "source_commits": [],
      "add_only": True
     },
     "engines": [{"name": n, "path": "/verif/glomsim", "serves_properties": sorted(p),
                  "kind_free_text": "stdlib-only deterministic simulator (glomsim): private instances of the real glom, seeded kernel with explicit decision maps, collaborator seam, baton scheduler, line tracing"} for n, p in sorted(engines.items())],
     "checks": checks,
     "not_applicable": [{"property_id": k, "reason": v} for k, v in sorted(NA.items()) if k not in CHECKS],
     "notes": "Deterministic simulation with fault injection; see DESIGN.md. VERIF_SEED selects the base seed; exit 0 held / 1 VIOLATION / 2 harness error. known_findings.txt lists recorded findings."
    }
    json.dump(man, open('/verif/MANIFEST.json', 'w'), indent=1)
    print('checks:', [c['property_id'] for c in checks])

main()
