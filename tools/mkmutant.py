#!/usr/bin/env python3
"""mkmutant.py <name> <file relative to /repo> <<< JSON [[old, new], ...]  -> mutants/<name>.patch"""
import sys, json, difflib
name, rel = sys.argv[1], sys.argv[2]
pairs = json.load(sys.stdin)
src = open('/repo/' + rel).read()
new = src
for old, rep in pairs:
    assert new.count(old) == 1, (new.count(old), old)
    new = new.replace(old, rep)
d = ''.join(difflib.unified_diff(src.splitlines(True), new.splitlines(True), 'a/' + rel, 'b/' + rel))
open(f'/verif/mutants/{name}.patch', 'w').write(d)
print('wrote', name, len(d.splitlines()), 'lines')
