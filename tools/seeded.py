#!/venv/bin/python
"""Validate and file a seeded change produced by an independent sub-agent.

  tools/seeded.py <prop id> <label> <patch.diff> <demo.py> <notes.md> [--checks ID,ID] [--tier quick]

Steps (all in a scratch worktree of /repo under /tmp, removed afterwards):
  1. the patch applies to /repo's HEAD;
  2. the existing test suite still passes with it;
  3. the demo fails with the patch and passes without it;
  4. the given checks (default: the property's own check) are run against the patched tree (GLOM_SRC).
Result: /verif/seeded/<id>_<label>/{patch.diff, demo.py, notes.md, meta.json}
"""
import json
import os
import shutil
import subprocess
import sys
import tempfile
import time

PY = '/venv/bin/python'


def sh(cmd, **kw):
    return subprocess.run(cmd, capture_output=True, text=True, **kw)


def main(argv):
    if argv[0] == '--revalidate':
        d0 = os.path.abspath(argv[1])
        prop, label = os.path.basename(d0).split('_', 1)
        argv = [prop, label, d0 + '/patch.diff', d0 + '/demo.py', d0 + '/notes.md'] + argv[2:]
    prop, label, patch, demo, notes = argv[:5]
    patch, demo, notes = (os.path.abspath(x) for x in (patch, demo, notes))
    rest = argv[5:]
    checks = [prop]
    tier = 'quick'
    seeds = None
    while rest:
        a = rest.pop(0)
        if a == '--checks':
            checks = rest.pop(0).split(',')
        elif a == '--tier':
            tier = rest.pop(0)
        elif a == '--seeds':
            seeds = rest.pop(0)
    d = tempfile.mkdtemp(prefix='glom_seeded_', dir='/tmp')
    w = os.path.join(d, 'w')
    meta = {'property': prop, 'label': label, 'validated_at': time.strftime('%Y-%m-%d %H:%M:%S'),
            'repo_head': sh(['git', '-C', '/repo', 'rev-parse', '--short', 'HEAD']).stdout.strip()}
    try:
        sh(['git', '-C', '/repo', 'worktree', 'add', '--detach', '-f', w, 'HEAD'])
        env = dict(os.environ, PYTHONPATH=w)
        r0 = sh([PY, demo], cwd='/tmp', env=env, timeout=300)
        meta['demo_without_patch'] = r0.returncode
        ap = sh(['git', '-C', w, 'apply', os.path.abspath(patch)])
        meta['patch_applies'] = ap.returncode == 0
        if ap.returncode:
            print('PATCH DOES NOT APPLY', ap.stderr[-500:])
            meta['verdict'] = 'rejected: patch does not apply'
            return finish(meta, prop, label, patch, demo, notes, keep=False)
        t = sh([PY, '-m', 'pytest', '-q', '-p', 'no:cacheprovider', '--deselect', 'glom/test/test_cli.py::test_main',
                '--timeout=900', 'glom/test'], cwd=w, timeout=900)
        meta['tests_pass_with_patch'] = t.returncode == 0
        meta['tests_summary'] = (t.stdout.strip().splitlines() or ['?'])[-1]
        r1 = sh([PY, demo], cwd='/tmp', env=env, timeout=300)
        meta['demo_with_patch'] = r1.returncode
        meta['demo_output_with_patch'] = (r1.stdout + r1.stderr)[-600:]
        ok = meta['tests_pass_with_patch'] and r0.returncode == 0 and r1.returncode != 0
        meta['valid'] = ok
        print(f'validated={ok} tests={meta["tests_summary"]} demo_without={r0.returncode} demo_with={r1.returncode}')
        results = {}
        for c in checks:
            cmd = [PY, '/verif/run_check.py', c, tier]
            if seeds:
                cmd += ['--seeds', seeds]
            env2 = dict(os.environ, GLOM_SRC=w, PYTHONHASHSEED='0', VERIF_OUT=d, GLOMSIM_SHRINK_S=os.environ.get('GLOMSIM_SHRINK_S', '150'))
            t0 = time.time()
            p = sh(cmd, env=env2, cwd='/verif', timeout=3600)
            lines = [l for l in p.stdout.splitlines() if l.startswith(('VIOLATION', '  clause', 'KNOWN', '[', 'HARNESS'))]
            results[c] = {'exit': p.returncode, 'wall_s': round(time.time() - t0, 1),
                          'sigs': sorted({l.split('sig=')[1] for l in lines if 'sig=' in l})[:12],
                          'summary': next((l for l in lines if l.startswith('[')), '')}
            print(f'  check {c}: exit={p.returncode}', results[c]['sigs'][:4])
            if p.returncode not in (0, 1):
                print(p.stdout[-800:], p.stderr[-800:])
        meta['checks'] = results
        meta['caught_by'] = sorted(c for c, r in results.items() if r['exit'] == 1)
        meta['what_was_run'] = f'tools/seeded.py (tier={tier}' + (f', seeds={seeds}' if seeds else '') + ')'
        return finish(meta, prop, label, patch, demo, notes, keep=ok)
    finally:
        sh(['git', '-C', '/repo', 'worktree', 'remove', '--force', w])
        shutil.rmtree(d, ignore_errors=True)
        sh(['git', '-C', '/repo', 'worktree', 'prune'])


def finish(meta, prop, label, patch, demo, notes, keep):
    if not keep:
        print('NOT KEPT:', json.dumps(meta)[:600])
        return 1
    out = f'/verif/seeded/{prop}_{label}'
    os.makedirs(out, exist_ok=True)
    def cp(src, dst):
        if os.path.abspath(src) != os.path.abspath(dst):
            shutil.copy(src, dst)
    cp(patch, os.path.join(out, 'patch.diff'))
    cp(demo, os.path.join(out, 'demo.py'))
    if os.path.exists(notes):
        cp(notes, os.path.join(out, 'notes.md'))
        meta['needs_to_manifest'] = open(notes).read()[:1500]
    meta['breaks_property'] = prop
    with open(os.path.join(out, 'meta.json'), 'w') as f:
        json.dump(meta, f, indent=1)
    print('kept in', out, 'caught_by', meta.get('caught_by'))
    return 0


if __name__ == '__main__':
    sys.exit(main(sys.argv[1:]))
