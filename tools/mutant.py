#!/venv/bin/python
"""Sensitivity helper: apply a patch to a scratch copy of /repo, optionally run the existing test
suite there, run the given checks against the copy (GLOM_SRC), report, delete the copy.

  tools/mutant.py <patch> [--tests] [--tier quick|thorough] [--seeds N] ID [ID ...]
"""
import os, shutil, subprocess, sys, tempfile

def main(argv):
    patch = os.path.abspath(argv[0]); rest = argv[1:]
    tests = '--tests' in rest
    tier = 'quick'; seeds = None; ids = []
    it = iter([a for a in rest if a != '--tests'])
    for a in it:
        if a == '--tier': tier = next(it)
        elif a == '--seeds': seeds = next(it)
        else: ids.append(a)
    d = tempfile.mkdtemp(prefix='glom_mut_', dir='/tmp')
    try:
        subprocess.check_call(['git', '-C', '/repo', 'worktree', 'add', '--detach', '-f', d + '/w', 'HEAD'],
                              stdout=subprocess.DEVNULL, stderr=subprocess.DEVNULL)
        w = d + '/w'
        # carry over uncommitted changes of /repo's working tree (normally none)
        r = subprocess.run(['git', '-C', w, 'apply', patch], capture_output=True, text=True)
        if r.returncode:
            print('PATCH-FAILED', r.stderr); return 3
        rc_tests = None
        if tests:
            p = subprocess.run(['/venv/bin/python', '-m', 'pytest', '-q', '-p', 'no:cacheprovider', '--deselect', 'glom/test/test_cli.py::test_main',
                                '--timeout=900', 'glom/test'], cwd=w, capture_output=True, text=True)
            rc_tests = p.returncode
            print('TESTS', 'pass' if rc_tests == 0 else 'FAIL', p.stdout.strip().splitlines()[-1] if p.stdout.strip() else '')
            if rc_tests != 0:
                print(p.stdout[-1500:])
        env = dict(os.environ, GLOM_SRC=w, PYTHONHASHSEED='0', VERIF_OUT=d)
        results = {}
        for pid in ids:
            cmd = ['/venv/bin/python', '/verif/run_check.py', pid, tier]
            if seeds: cmd += ['--seeds', seeds]
            p = subprocess.run(cmd, env=env, capture_output=True, text=True, cwd='/verif')
            results[pid] = p.returncode
            tail = [l for l in p.stdout.splitlines() if l.startswith(('VIOLATION', 'KNOWN', '[', 'HARNESS', '  clause'))]
            print(f'CHECK {pid} exit={p.returncode}'); print('\n'.join('   ' + l[:300] for l in tail[:12]))
            if p.returncode not in (0, 1): print(p.stdout[-1500:], p.stderr[-1500:])
        print('RESULT', os.path.basename(patch), 'tests=%s' % rc_tests, results)
        return 0
    finally:
        subprocess.run(['git', '-C', '/repo', 'worktree', 'remove', '--force', d + '/w'],
                       stdout=subprocess.DEVNULL, stderr=subprocess.DEVNULL)
        shutil.rmtree(d, ignore_errors=True)
        subprocess.run(['git', '-C', '/repo', 'worktree', 'prune'])

if __name__ == '__main__':
    sys.exit(main(sys.argv[1:]))
