#!/venv/bin/python
"""Single entry point.

  run_check.py <ID> quick|thorough [--seeds N] [--procs N] [--wall S]
  run_check.py --replay <file>
  run_check.py --selftest determinism|sensitivity [ID ...]

Honours VERIF_SEED (default 0) and VERIF_TIER.  Re-executes itself under PYTHONHASHSEED=0 unless
the variable is already set (the determinism self-test sets other values on purpose).
"""
import os
import sys

HERE = os.path.dirname(os.path.abspath(__file__))
sys.path.insert(0, HERE)

if 'PYTHONHASHSEED' not in os.environ:
    os.environ['PYTHONHASHSEED'] = '0'
    os.execv(sys.executable, [sys.executable] + sys.argv)

import warnings
warnings.simplefilter("ignore")


def main(argv):
    from glomsim import runner
    if not argv:
        print(__doc__)
        return 2
    if argv[0] == '--setup':
        import glomsim.kernel, glomsim.build, glomsim.gen, glomsim.simrun
        G = glomsim.simrun.make_instance()
        assert G.glom({'a': {'b': 1}}, 'a.b') == 1
        os.makedirs(runner.REPLAYS, exist_ok=True)
        os.makedirs(runner.EVIDENCE, exist_ok=True)
        print('glomsim ready; source fingerprint', glomsim.loader.src_fingerprint())
        return 0
    if argv[0] == '--c06-cold':
        import json
        from glomsim.checks import c06
        print(json.dumps(c06.cold_main(json.load(sys.stdin))))
        return 0
    if argv[0] == '--replay':
        return runner.replay_file(argv[1])
    if argv[0] == '--selftest':
        from glomsim import selftest
        return selftest.main(argv[1:])
    digests_out = None
    if argv[0] == '--digests':
        digests_out = argv[1]
        argv = argv[2:]
    prop = argv[0].upper()
    tier = os.environ.get('VERIF_TIER') or (argv[1] if len(argv) > 1 else 'quick')
    if len(argv) > 1 and argv[1] in ('quick', 'thorough'):
        tier = argv[1]
    seed = int(os.environ.get('VERIF_SEED', '0') or 0)
    kw = {}
    rest = argv[2:]
    while rest:
        a = rest.pop(0)
        if a == '--seeds':
            kw['n_seeds'] = int(rest.pop(0))
        elif a == '--procs':
            kw['nproc'] = int(rest.pop(0))
        elif a == '--wall':
            kw['wall'] = int(rest.pop(0))
    print(f'VERIF_SEED={seed} property={prop} tier={tier} PYTHONHASHSEED={os.environ.get("PYTHONHASHSEED")}'
          f' GLOM_SRC={os.environ.get("GLOM_SRC", "/repo")}')
    try:
        mod, agg, broken = runner.run_batch(prop, tier, seed, **kw)
        if digests_out:
            import json
            with open(digests_out, 'w') as f:
                json.dump({'digests': agg['digests'], 'harness_errors': agg['harness_errors']}, f)
            return 2 if broken else 0
        return runner.report(prop, tier, seed, mod, agg, broken)
    except Exception:
        import traceback
        traceback.print_exc()
        print(f'HARNESS-ERROR property={prop}')
        return 2


if __name__ == '__main__':
    sys.exit(main(sys.argv[1:]))
