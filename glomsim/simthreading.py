"""The ``threading`` module as the glom sources see it (seam for locks).

The pinned tree takes no lock anywhere, but "make the cache thread-safe" is the obvious next
maintenance step, and a real ``threading.Lock`` does not mix with a baton scheduler: the task that
holds it may be parked, and the task that wants it would block the only running thread -- the
simulation would hang on code that is perfectly correct.  So every private instance imports this
shim instead of ``threading`` (see ``loader``): ``Lock`` / ``RLock`` are owned by *simulated tasks*,
waiting for one is a scheduling decision of the kernel (recorded like any other switch), and a wait
that can never end -- a task re-acquiring its own non-reentrant lock, or every live task waiting --
ends the run with :class:`SimDeadlock` instead of hanging.  Everything else (``local``, ``get_ident``,
``Event`` ...) is the real module's.
"""
import threading as _real
import types


class SimDeadlock(BaseException):
    """a simulated task waits for a lock that will never be released (the real program would hang)"""


class SimLock:
    def __init__(self, mod, reentrant):
        self._mod = mod
        self._reentrant = reentrant
        self.owner = None
        self.count = 0

    def _me(self):
        k = self._mod.kernel
        if k is not None and k.tasks is not None:
            return ('task', id(k), k.cur_task)
        return ('thread', _real.get_ident())

    def acquire(self, blocking=True, timeout=-1):
        me = self._me()
        k = self._mod.kernel
        if k is not None:
            k.hit('lock.acquire')
        if self.owner is None:
            self.owner, self.count = me, 1
            self._mod.n_held += 1
            return True
        if self.owner == me:
            if self._reentrant:
                self.count += 1
                return True
            if not blocking or (timeout is not None and timeout >= 0):
                return False
            if k is not None:
                k.deadlock = {'kind': 'self', 'task': me[-1] if me[0] == 'task' else 'thread'}
                k.hit('lock.self_deadlock')
            raise SimDeadlock('a task waits for a non-reentrant lock it holds itself')
        # held by somebody else
        if not blocking or (timeout is not None and timeout >= 0):
            return False
        if k is None or k.tasks is None or me[0] != 'task':
            raise SimDeadlock('lock is held by an owner that no longer runs')
        k.lock_wait(self, me)
        self.owner, self.count = me, 1
        self._mod.n_held += 1
        return True

    def release(self):
        if self.owner is None:
            raise RuntimeError('release unlocked lock')
        if self._reentrant and self.owner != self._me():
            raise RuntimeError('cannot release un-acquired lock')
        self.count -= 1
        if self.count <= 0:
            self.owner, self.count = None, 0
            self._mod.n_held -= 1

    def locked(self):
        return self.owner is not None

    __enter__ = acquire

    def __exit__(self, *a):
        self.release()

    def __repr__(self):
        return f'<sim {"RLock" if self._reentrant else "Lock"} owner={self.owner}>'


class SimThreading(types.ModuleType):
    """one per private instance"""

    def __init__(self):
        super().__init__('threading')
        self.kernel = None
        self.n_held = 0         # simulated locks currently held (by anybody)

    def Lock(self):
        return SimLock(self, False)

    def RLock(self):
        return SimLock(self, True)

    def __getattr__(self, name):
        return getattr(_real, name)
