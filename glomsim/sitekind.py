"""Classify a collaborator fault point by *how glom reached it* (read off the Python stack).

The collaborator itself cannot know whether its ``__getitem__`` was called for a ``'P'`` path
segment, a ``T[...]`` step, a wildcard expansion or by a user callable.  The nearest frames inside
the glom sources tell: function name, and for ``_t_eval`` the locals ``op`` and ``i``.  An
unrecognised stack yields kind ``'unknown'`` and the oracle then makes no site-specific claim
(so renaming glom internals can never raise a false alarm, only reduce what is checked).
"""
import sys

HELPERS = {'_get_sequence_item', '_set_sequence_item', '_del_sequence_item', 'get_keys', '<lambda>',
           '<listcomp>', '<dictcomp>', '<genexpr>', '_apply_for_each'}


def classify(src_dir, event_kind, skip=2):
    """-> dict(kind=..., fn=..., op=..., part_idx=...)"""
    f = sys._getframe(skip)
    depth = 0
    via_user = False
    while f is not None and depth < 60:
        code = f.f_code
        fn = code.co_filename
        if fn.startswith(src_dir):
            name = code.co_name
            if name in HELPERS:
                f = f.f_back
                depth += 1
                continue
            out = _from_frame(f, name, event_kind, via_user)
            out['lazy_stream'] = _in_stream_generator(f, src_dir)
            return out
        else:
            # a frame outside glom between the collaborator and glom: user code / boltons / harness
            if 'glomsim' not in fn:
                via_user = True
        f = f.f_back
        depth += 1
    return {'kind': 'unknown', 'fn': None}


def _in_stream_generator(f, src_dir):
    """is a generator FUNCTION of glom's streaming module on the stack?  (Iter is lazy by contract, so
    its element loop is a generator frame, and Python turns a StopIteration that crosses a generator
    frame into RuntimeError -- PEP 479, not glom's doing)"""
    depth = 0
    while f is not None and depth < 80:
        c = f.f_code
        if c.co_flags & 0x20 and c.co_filename.startswith(src_dir) and c.co_filename.endswith('streaming.py') \
                and not c.co_name.startswith('<'):
            return True
        f = f.f_back
        depth += 1
    return False


def _from_frame(f, name, event_kind, via_user):
    loc = f.f_locals
    out = {'fn': name}
    if name == '_t_eval':
        op = loc.get('op')
        i = loc.get('i')
        out['op'] = op
        if isinstance(i, int):
            out['part_idx'] = i // 2
        if op in ('.', '[', 'P') and event_kind in ('get',):
            out['kind'] = {'P': 'P-get', '[': 'item-get', '.': 'attr-get'}[op]
        elif op in ('x', 'X'):
            out['kind'] = 'wildcard'
        elif event_kind == 'arith' and isinstance(op, str) and op in '+-*/%:&|^~_#':
            out['kind'] = 'arith'
        else:
            out['kind'] = 'other'
        return out
    if name == '_extend_children':
        out['kind'] = 'wildcard'
        return out
    if name == '_assign_op':
        op = loc.get('op')
        out['op'] = op
        out['kind'] = {'P': 'P-assign', '[': 'item-assign', '.': 'attr-assign'}.get(op, 'other') \
            if event_kind == 'set' else 'other'
        return out
    if name == '_del_one':
        op = loc.get('op')
        out['op'] = op
        me = loc.get('self')
        out['ignore_missing'] = bool(getattr(me, 'ignore_missing', False))
        out['kind'] = {'P': 'P-delete', '[': 'item-delete', '.': 'attr-delete'}.get(op, 'other') \
            if event_kind == 'del' else 'other'
        return out
    if name in ('_handle_list', 'target_iter', '_iterate'):
        if event_kind == 'iter':
            out['kind'] = 'iterate'
        elif event_kind == 'next':
            out['kind'] = 'next'
        else:
            out['kind'] = 'other'
        return out
    if name == '_glom_match':
        out['kind'] = 'match-callable' if event_kind == 'call' else 'other'
        return out
    if name == 'glomit':
        me = loc.get('self')
        cn = type(me).__name__
        out['cls'] = cn
        if cn == 'Check' and event_kind == 'call':
            out['kind'] = 'check-validator'
        elif cn == '_MExpr' and event_kind == 'arith':
            out['kind'] = 'callable'        # the target's own comparison operator, called by an M-expression
        elif event_kind == 'call':
            out['kind'] = 'callable'
        else:
            out['kind'] = 'other'
        return out
    if name in ('AUTO', 'FILL', 'GROUP', '_fold', '_agg', 'agg') and event_kind == 'call':
        out['kind'] = 'callable'
        return out
    out['kind'] = 'other'
    return out
