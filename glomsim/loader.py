"""Private instances of the real glom package.

Each call to :func:`load` executes the glom sources found under ``GLOM_SRC``
(default ``/repo``) into *fresh module objects* that are not left in
``sys.modules``.  A private instance therefore starts cold: empty path cache,
default registry, ``_STAR_WARNED`` False.  Code objects are cached per process,
keyed by (path, mtime, size), so edits to the working tree are always picked up.

Seams set here (never in the importable package):

* ``glom_debug``   -> env GLOM_DEBUG while the modules execute
* ``trace_width``  -> ``face.helpers.get_wrap_width`` while the modules execute
* ``set_factory``  -> the name ``set`` in ``glom.core``'s globals *before* the module body
                      runs (register_op runs at import of mutation.py)
* ``threading``    -> ``import threading`` inside the glom sources yields the instance's simulated module
                      (``simthreading``): locks are owned by simulated tasks, waiting is a kernel decision
* after load: ``core.PATH_STAR``, ``Path._MAX_CACHE`` are plain attributes of the private
  module / class and are set by the caller.
"""
import importlib
import importlib.abc
import importlib.util
import os
import sys
import types

DEFAULT_SRC = '/repo'


def glom_src():
    return os.environ.get('GLOM_SRC', DEFAULT_SRC)


_CODE_CACHE = {}


def _code_for(path):
    st = os.stat(path)
    key = (path, st.st_mtime_ns, st.st_size)
    code = _CODE_CACHE.get(key)
    if code is None:
        with open(path, 'rb') as f:
            src = f.read()
        code = compile(src, path, 'exec', dont_inherit=True)
        _CODE_CACHE[key] = code
    return code


class _PrivLoader(importlib.abc.Loader):
    def __init__(self, path, is_pkg, pre_globals, builtins_ns=None):
        self.path, self.is_pkg, self.pre_globals = path, is_pkg, pre_globals
        self.builtins_ns = builtins_ns

    def create_module(self, spec):
        return None

    def exec_module(self, module):
        pre = self.pre_globals.get(module.__name__)
        if pre:
            module.__dict__.update(pre)
        if self.builtins_ns is not None:
            module.__dict__['__builtins__'] = self.builtins_ns
        exec(_code_for(self.path), module.__dict__)


def _builtins_with_threading(shim):
    """the builtins namespace of the private modules: ``import threading`` (any spelling) yields the
    instance's simulated module (see simthreading)"""
    import builtins
    real_import = builtins.__import__

    def sim_import(name, globals=None, locals=None, fromlist=(), level=0):
        if level == 0 and name == 'threading':
            return shim
        return real_import(name, globals, locals, fromlist, level)
    ns = dict(builtins.__dict__)
    ns['__import__'] = sim_import
    return ns


class _PrivFinder(importlib.abc.MetaPathFinder):
    def __init__(self, src, pre_globals, builtins_ns=None):
        self.root = os.path.join(src, 'glom')
        self.pre_globals = pre_globals
        self.builtins_ns = builtins_ns

    def find_spec(self, fullname, path=None, target=None):
        if fullname != 'glom' and not fullname.startswith('glom.'):
            return None
        parts = fullname.split('.')[1:]
        base = os.path.join(self.root, *parts)
        if os.path.isdir(base) and os.path.exists(os.path.join(base, '__init__.py')):
            p = os.path.join(base, '__init__.py')
            spec = importlib.util.spec_from_loader(
                fullname, _PrivLoader(p, True, self.pre_globals, self.builtins_ns), origin=p, is_package=True)
            spec.submodule_search_locations = [base]
            spec.has_location = True
            return spec
        p = base + '.py'
        if os.path.exists(p):
            spec = importlib.util.spec_from_loader(
                fullname, _PrivLoader(p, False, self.pre_globals, self.builtins_ns), origin=p)
            spec.has_location = True
            return spec
        return None


class Instance:
    """A private glom: attribute access goes to the package namespace;
    ``.core``, ``.matching`` ... are the private submodules."""

    def __init__(self, modules, src, sim_threading=None):
        self._modules = modules
        self._src = src
        self.pkg = modules['glom']
        self.sim_threading = sim_threading

    def __getattr__(self, name):
        mods = object.__getattribute__(self, '_modules')
        full = 'glom.' + name
        if full in mods:
            return mods[full]
        return getattr(object.__getattribute__(self, 'pkg'), name)

    @property
    def src_dir(self):
        return os.path.join(self._src, 'glom') + os.sep


def load(src=None, glom_debug=False, trace_width=None, set_factory=None, extra=()):
    """Return a fresh private Instance of the glom package under *src*."""
    src = src or glom_src()
    pre_globals = {}
    if set_factory is not None:
        pre_globals['glom.core'] = {'set': set_factory}
    saved = {k: sys.modules.pop(k) for k in list(sys.modules)
             if k == 'glom' or k.startswith('glom.')}
    from . import simthreading
    shim = simthreading.SimThreading()
    finder = _PrivFinder(src, pre_globals, _builtins_with_threading(shim))
    sys.meta_path.insert(0, finder)
    old_env = os.environ.get('GLOM_DEBUG')
    import face.helpers as fh
    old_gww = fh.get_wrap_width
    try:
        if glom_debug:
            os.environ['GLOM_DEBUG'] = '1'
        else:
            os.environ.pop('GLOM_DEBUG', None)
        if trace_width is not None:
            tw = int(trace_width)
            fh.get_wrap_width = lambda max_width=None: tw
        importlib.import_module('glom')
        for name in extra:
            importlib.import_module(name)
        mods = {k: v for k, v in sys.modules.items()
                if k == 'glom' or k.startswith('glom.')}
    finally:
        fh.get_wrap_width = old_gww
        if old_env is None:
            os.environ.pop('GLOM_DEBUG', None)
        else:
            os.environ['GLOM_DEBUG'] = old_env
        sys.meta_path.remove(finder)
        for k in list(sys.modules):
            if k == 'glom' or k.startswith('glom.'):
                del sys.modules[k]
        sys.modules.update(saved)
    return Instance(mods, src, shim)


def apply_knobs(G, max_cache=None, path_star=None):
    if max_cache is not None:
        G.core.Path._MAX_CACHE = max_cache
    if path_star is not None:
        G.core.PATH_STAR = path_star


def src_fingerprint(src=None):
    """sha1 over the glom sources: recorded in evidence and replay files."""
    import hashlib
    src = src or glom_src()
    h = hashlib.sha1()
    root = os.path.join(src, 'glom')
    for fn in sorted(os.listdir(root)):
        if fn.endswith('.py'):
            with open(os.path.join(root, fn), 'rb') as f:
                h.update(fn.encode() + b'\0' + f.read())
    return h.hexdigest()[:16]
