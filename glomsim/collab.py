"""Collaborator seam: simulator-owned objects that glom calls into.

All of them report to the Kernel through ``k.point(site, kind, detail)`` *before* acting on their
underlying data, so a fault decided at the point happens before any mutation (collaborators fail
atomically).  Containers are dict/list subclasses declared with ``__slots__`` so that they have no
``__dict__`` (glom's default registry then treats them like the builtin they derive from).
"""
from .canon import short


class Probe:
    """a callable usable as spec, predicate, key function, init, missing, factory, handler.

    mode:  'id'    return the (first) argument
           'tok'   return a unique token string  'tok:<pid>:<nth>'
           'const' return self.arg
           'true'/'false'  predicates
           'fn'    return self.fn(*args)
           'nested' make a re-entrant top-level glom call described by self.arg
    """
    def __init__(self, k, pid, mode='id', arg=None, fn=None, name=None):
        self.k, self.pid, self.mode, self.arg, self.fn = k, pid, mode, arg, fn
        self.__name__ = name or f'P{pid}'
        self.site = f'p{pid}'

    def __repr__(self):
        return f'<{self.__name__}>'

    def __call__(self, *args, **kwargs):
        k = self.k
        nth = k.point(self.site, 'call', short(args) if not kwargs else short((args, kwargs)))
        m = self.mode
        if m == 'id':
            return args[0] if args else None
        if m == 'tok':
            return f'tok:{getattr(k, "tok_label", None) if getattr(k, "tok_label", None) is not None else k.cur_task}:{self.pid}:{nth}'
        if m == 'const':
            return self.arg
        if m == 'true':
            return True
        if m == 'false':
            return False
        if m == 'fn':
            return self.fn(*args, **kwargs)
        if m == 'nested':
            return self.arg(self, args, nth)
        if m == 'simdict':
            d = SimDict()
            d._k, d._sid = k, f'f{self.pid}_{nth}'
            return d
        raise AssertionError(m)


class _SimIterator:
    __slots__ = ('_k', '_site', '_it', '_owner')

    def __init__(self, k, site, it, owner=None):
        self._k, self._site, self._it, self._owner = k, site, it, owner

    def __iter__(self):
        return self

    def __next__(self):
        self._k.point(self._site + '.next', 'next')
        v = next(self._it)      # StopIteration propagates
        if self._owner is not None:
            self._owner._pulled += 1
        return v


class SimDict(dict):
    __slots__ = ('_k', '_sid')

    def _site(self, op):
        return f'{self._sid}.{op}'

    def __getitem__(self, key):
        self._k.point(self._site('get'), 'get', short(key))
        return dict.__getitem__(self, key)

    def __setitem__(self, key, val):
        self._k.point(self._site('set'), 'set', short(key))
        dict.__setitem__(self, key, val)

    def __delitem__(self, key):
        self._k.point(self._site('del'), 'del', short(key))
        dict.__delitem__(self, key)

    def __iter__(self):
        self._k.point(self._site('iter'), 'iter')
        return _SimIterator(self._k, self._sid, dict.__iter__(self))

    def __reduce__(self):   # copy.copy / deepcopy support for snapshots
        return (dict, (dict(self),))


class SimList(list):
    __slots__ = ('_k', '_sid')

    def _site(self, op):
        return f'{self._sid}.{op}'

    def __getitem__(self, idx):
        self._k.point(self._site('get'), 'get', short(idx))
        return list.__getitem__(self, idx)

    def __setitem__(self, idx, val):
        self._k.point(self._site('set'), 'set', short(idx))
        list.__setitem__(self, idx, val)

    def __delitem__(self, idx):
        self._k.point(self._site('del'), 'del', short(idx))
        list.__delitem__(self, idx)

    def __iter__(self):
        self._k.point(self._site('iter'), 'iter')
        return _SimIterator(self._k, self._sid, list.__iter__(self))


class SimObj:
    """attribute object without __dict__; attributes live in a slot-held dict"""
    __slots__ = ('_k', '_sid', '_d')

    def __getattr__(self, name):
        if name.startswith('__'):
            raise AttributeError(name)
        self._k.point(f'{self._sid}.get', 'get', name)
        try:
            return self._d[name]
        except KeyError:
            raise AttributeError(f"'SimObj' object has no attribute '{name}'") from None

    def __setattr__(self, name, val):
        if name in ('_k', '_sid', '_d'):
            object.__setattr__(self, name, val)
            return
        self._k.point(f'{self._sid}.set', 'set', name)
        self._d[name] = val

    def __delattr__(self, name):
        self._k.point(f'{self._sid}.del', 'del', name)
        try:
            del self._d[name]
        except KeyError:
            raise AttributeError(name) from None

    def __repr__(self):
        return 'SimObj(%s)' % ', '.join(f'{k}={v!r}' for k, v in self._d.items())


class SimIter:
    """an iterable source (not a sequence): every __iter__ and __next__ is a point.
    ``inf`` makes it endless (cycling through items with an increasing offset)"""
    __slots__ = ('_k', '_sid', '_items', '_inf', '_pulled', '_iters')

    def __init__(self, k, sid, items, inf=False):
        self._k, self._sid, self._items, self._inf = k, sid, list(items), inf
        self._pulled = 0
        self._iters = 0

    def _gen(self):
        if not self._inf:
            yield from self._items
            return
        n = 0
        while True:
            for x in self._items:
                yield x
            n += 1
            if not self._items:
                yield n

    def __iter__(self):
        self._k.point(f'{self._sid}.iter', 'iter')
        self._iters += 1
        return _SimIterator(self._k, self._sid, self._gen(), owner=self)

    def __repr__(self):
        return f'SimIter({self._items!r}{", inf" if self._inf else ""})'


class SimNum:
    """a number-like collaborator: every arithmetic operator is a point (so a fault can be raised
    by the operand of a T-arithmetic step)"""
    __slots__ = ('_k', '_sid', '_v')

    def __init__(self, k, sid, v):
        self._k, self._sid, self._v = k, sid, v

    def _op(self, name, other, f):
        self._k.point(f'{self._sid}.{name}', 'arith', short(other))
        return f(self._v, other)

    def __add__(self, o): return self._op('add', o, lambda a, b: a + b)
    def __sub__(self, o): return self._op('sub', o, lambda a, b: a - b)
    def __mul__(self, o): return self._op('mul', o, lambda a, b: a * b)
    def __truediv__(self, o): return self._op('div', o, lambda a, b: a / b)
    def __mod__(self, o): return self._op('mod', o, lambda a, b: a % b)
    def __pow__(self, o): return self._op('pow', o, lambda a, b: a ** b)
    def __neg__(self): return self._op('neg', None, lambda a, b: -a)
    # rich comparisons (M-expressions compare the target): points like the arithmetic operators
    def __lt__(self, o): return self._op('lt', o, lambda a, b: a < b)
    def __le__(self, o): return self._op('le', o, lambda a, b: a <= b)
    def __gt__(self, o): return self._op('gt', o, lambda a, b: a > b)
    def __ge__(self, o): return self._op('ge', o, lambda a, b: a >= b)

    def __repr__(self):
        return f'SimNum({self._v!r})'


class Obj:
    """plain attribute object with a __dict__ and a deterministic repr"""
    klass_default = 'cd'        # readable on every instance, stored on none (del obj.klass_default fails)

    def __init__(self, **kw):
        self.__dict__.update(kw)

    def __repr__(self):
        return 'Obj(%s)' % ', '.join(f'{k}={v!r}' for k, v in self.__dict__.items())

    def __eq__(self, other):
        return type(other) is type(self) and self.__dict__ == other.__dict__

    __hash__ = None


class Slotted:
    __slots__ = ('a', 'b')

    def __init__(self, **kw):
        for k, v in kw.items():
            setattr(self, k, v)

    def __repr__(self):
        return 'Slotted(%s)' % ', '.join(
            f'{k}={getattr(self, k)!r}' for k in self.__slots__ if hasattr(self, k))


class ROProp:
    """object with a read-only property 'ro' and a normal attribute store"""
    def __init__(self, **kw):
        self.__dict__.update(kw)

    @property
    def ro(self):
        return self.__dict__.get('_ro', 'ro-value')

    def __repr__(self):
        return 'ROProp(%s)' % ', '.join(f'{k}={v!r}' for k, v in self.__dict__.items())


class MyDict(dict):
    """Python-level dict subclass WITH a __dict__ (matches glom's _ObjStyleKeys duck type)"""
    def __repr__(self):
        return 'MyDict(%s)' % dict.__repr__(self)


class MyList(list):
    def __repr__(self):
        return 'MyList(%s)' % list.__repr__(self)


class FlexSpec:
    """a spec class whose instances are EITHER plain callables OR implement glom's extension protocol
    (an instance attribute ``glomit``): what one instance is says nothing about another"""

    def __init__(self, tag, hook):
        self.tag = tag
        if hook:
            self.glomit = self._glomit

    def __call__(self, target):
        return ('called', self.tag)

    def _glomit(self, target, scope):
        return ('glomit', self.tag)

    def __repr__(self):
        return f'FlexSpec({self.tag!r})'


class AnyEq:
    """a value that claims to be equal to everything (like unittest.mock.ANY): code that looks for its
    own sentinels with == / `in` instead of `is` takes it for one of them"""
    __slots__ = ()

    def __eq__(self, other):
        return True

    def __ne__(self, other):
        return False

    def __hash__(self):
        return 7

    def __repr__(self):
        return 'ANYEQ'


class MyTuple(tuple):
    """an immutable builtin subclassed WITH an instance __dict__: items cannot be assigned, attributes can"""
    def __repr__(self):
        return 'MyTuple(%s)' % tuple.__repr__(self)


class SlotDict(dict):
    """dict subclass without __dict__"""
    __slots__ = ()


class SlotList(list):
    __slots__ = ()
