"""Seeded workload generators: target recipes and type-directed spec recipes.

Everything is drawn from the ``random.Random`` passed in (the run's sequence PRNG).  The spec
generator follows the *shape* of the target (the value recipe itself) so that most specs succeed
and failures are planted on purpose; unknown shapes fall back to shape-agnostic specs.
"""

KEYS = ['a', 'b', 'c', 'd', 'e']
WORDS = ['x', 'yy', 'zed', 'w', 'é1', 'q' * 30]


class Ctx:
    """per-run generation context (swarm-style feature switches)"""

    def __init__(self, rng, feats=None, sim=0.3, fail=0.1, mutate=False, max_depth=4,
                 probes=True, nested=None):
        self.rng = rng
        self.feats = feats              # set of enabled spec families or None (= all)
        self.sim = sim                  # probability that a container is a Sim* collaborator
        self.fail = fail                # probability of planting a failing leaf
        self.mutate = mutate
        self.max_depth = max_depth
        self.probes = probes
        self.nested = nested            # list of nested-call descriptors to draw from
        self.pid = 0
        self.nid = 0
        self.bound = []                 # scope names bound so far in the current chain
        self.glob = []
        self.refs = []

    def new_pid(self):
        self.pid += 1
        return self.pid

    def new_nid(self):
        self.nid += 1
        return self.nid

    def on(self, feat):
        return self.feats is None or feat in self.feats


ALL_FEATS = ['path', 'T', 'struct', 'probe', 'fn', 'val', 'coalesce', 'call', 'scope', 'globals',
             'fill', 'match', 'switch', 'bool', 'check', 'fold', 'group', 'iter', 'wild', 'ref',
             'spec', 'vars', 'invoke', 'custom', 'nested']


def swarm_feats(rng, always=('path', 'struct', 'probe'), k=None):
    k = k if k is not None else rng.randint(3, len(ALL_FEATS))
    return set(always) | set(rng.sample(ALL_FEATS, k))


# ------------------------------------------------------------------------------- targets

def scalar(rng):
    r = rng.random()
    if r < 0.55:
        return rng.randint(-3, 9)
    if r < 0.8:
        return rng.choice(WORDS)
    if r < 0.9:
        return None
    if r < 0.95:
        return rng.choice([True, False])
    return rng.choice([0.5, 2.0, -1.25])


def gen_target(ctx, depth=0, kind=None):
    rng = ctx.rng
    if kind is None:
        if depth >= 3:
            kind = 'scalar' if rng.random() < 0.7 else rng.choice(['ilist', 'dict'])
        else:
            kind = rng.choice(['dict', 'dict', 'dict', 'list', 'ilist', 'obj', 'tuple', 'scalar',
                               'dlist', 'llist'])
    n = ctx.new_nid
    sim = rng.random() < ctx.sim
    if kind == 'scalar':
        return scalar(rng)
    if kind == 'dict':
        keys = rng.sample(KEYS, rng.randint(1, 4))
        t = 'simdict' if sim else rng.choice(['dict', 'dict', 'dict', 'odict'])
        return {'t': t, 'n': n(), 'v': [[k, gen_target(ctx, depth + 1)] for k in keys]}
    if kind == 'obj':
        keys = rng.sample(KEYS, rng.randint(1, 3))
        t = 'simobj' if sim else 'obj'
        return {'t': t, 'n': n(), 'v': [[k, gen_target(ctx, depth + 1)] for k in keys]}
    if kind == 'ilist':
        t = 'simlist' if sim else ('simiter' if rng.random() < ctx.sim / 2 else 'list')
        return {'t': t, 'n': n(), 'v': [rng.randint(0, 9) for _ in range(rng.randint(0, 5))]}
    if kind == 'llist':
        t = 'simlist' if sim else 'list'
        return {'t': t, 'n': n(), 'v': [
            {'t': 'list', 'n': n(), 'v': [rng.randint(0, 9) for _ in range(rng.randint(0, 3))]}
            for _ in range(rng.randint(0, 4))]}
    if kind == 'dlist':
        keys = rng.sample(KEYS, rng.randint(1, 3))
        t = 'simlist' if sim else 'list'
        return {'t': t, 'n': n(), 'v': [
            {'t': 'dict', 'n': n(), 'v': [[k, scalar(rng) if rng.random() < 0.8 else gen_target(ctx, depth + 2)]
                                          for k in keys]}
            for _ in range(rng.randint(1, 4))]}
    if kind == 'list':
        t = 'simlist' if sim else 'list'
        return {'t': t, 'n': n(), 'v': [gen_target(ctx, depth + 1) for _ in range(rng.randint(0, 3))]}
    if kind == 'tuple':
        return {'t': 'tuple', 'n': n(), 'v': [gen_target(ctx, depth + 1) for _ in range(rng.randint(0, 3))]}
    raise ValueError(kind)


# ------------------------------------------------------------------------------- shapes

def kind_of(sh):
    if sh is None:
        return None
    if isinstance(sh, dict):
        t = sh['t']
        if t in ('dict', 'odict', 'simdict', 'mydict', 'slotdict'):
            return 'dict'
        if t in ('list', 'simlist', 'mylist', 'slotlist'):
            return 'list'
        if t == 'simiter':
            return 'iter'
        if t in ('obj', 'simobj', 'roprop', 'slotted'):
            return 'obj'
        if t == 'tuple':
            return 'tuple'
        return None
    if isinstance(sh, bool):
        return 'bool'
    if isinstance(sh, int):
        return 'int'
    if isinstance(sh, float):
        return 'float'
    if isinstance(sh, str):
        return 'str'
    if sh is None:
        return None
    return None


def children(sh):
    k = kind_of(sh)
    if k in ('dict', 'obj'):
        return [(kk, vv) for kk, vv in sh['v'] if isinstance(kk, str)]
    if k in ('list', 'tuple', 'iter'):
        return list(enumerate(sh['v']))
    return []


def is_num_list(sh):
    return kind_of(sh) in ('list', 'iter', 'tuple') and sh['v'] and all(
        isinstance(x, int) and not isinstance(x, bool) for x in sh['v'])


def is_list_of_lists(sh):
    return kind_of(sh) in ('list',) and sh['v'] and all(kind_of(x) == 'list' for x in sh['v'])


def is_list_of_dicts(sh):
    return kind_of(sh) in ('list',) and sh['v'] and all(kind_of(x) == 'dict' for x in sh['v'])


# ------------------------------------------------------------------------------- specs

def gen_spec(ctx, sh, depth=0):
    """-> (spec recipe, result shape or None)"""
    rng = ctx.rng
    k = kind_of(sh)
    if depth >= ctx.max_depth:
        return leaf(ctx, sh)
    if rng.random() < ctx.fail * 0.5:
        return failing(ctx, sh), None
    opts = []
    if k in ('dict', 'obj') and children(sh):
        opts += ['access'] * 4 + ['dictspec'] * 3 + ['chain'] * 2
        if ctx.on('wild'):
            opts += ['wild']
    if k in ('list', 'tuple', 'iter'):
        opts += ['listspec'] * 3
        if k != 'iter' and sh['v']:
            opts += ['index', 'chain']
        if ctx.on('fold') and (is_num_list(sh) or is_list_of_lists(sh)):
            opts += ['fold'] * 2
        if ctx.on('group') and is_num_list(sh):
            opts += ['group'] * 2
        if ctx.on('iter'):
            opts += ['iter'] * 2
    opts += ['leaf'] * 2
    if ctx.on('coalesce'):
        opts += ['coalesce'] * 2
    if ctx.on('scope'):
        opts += ['scope'] * 2 + ['accum']
    if ctx.on('globals'):
        opts += ['globals']
    if ctx.on('fill'):
        opts += ['fill']
    if ctx.on('match'):
        opts += ['match']
    if ctx.on('switch'):
        opts += ['switch']
    if ctx.on('bool'):
        opts += ['bool']
    if ctx.on('check'):
        opts += ['check']
    if ctx.on('call'):
        opts += ['call']
    if ctx.on('invoke'):
        opts += ['invoke']
    if ctx.on('spec'):
        opts += ['specwrap']
    if ctx.on('vars'):
        opts += ['vars']
    if ctx.on('ref') and depth <= 1:
        opts += ['ref']
    if ctx.on('custom'):
        opts += ['custom']
    if ctx.on('struct'):
        opts += ['dictany', 'pipe']
    if ctx.mutate and k in ('dict', 'obj', 'list'):
        opts += ['assign', 'delete']
    c = rng.choice(opts)
    d = depth + 1
    G = lambda s, dd=d: gen_spec(ctx, s, dd)
    if c == 'leaf':
        return leaf(ctx, sh)
    if c == 'access':
        return access(ctx, sh)
    if c == 'index':
        i = rng.randrange(len(sh['v']))
        style = rng.random()
        if style < 0.4:
            return ['str', str(i)], sh['v'][i]
        if style < 0.8:
            return ['T', 'T', [['[', i]]], sh['v'][i]
        return ['Path', [i]], sh['v'][i]
    if c == 'dictspec':
        ch = children(sh)
        rng.shuffle(ch)
        pairs = []
        for kk, vv in ch[:rng.randint(1, 3)]:
            acc = access_to(ctx, sh, kk)
            sub, _ = G(vv)
            pairs.append([f'k_{kk}', ['tuple', [acc, sub]] if rng.random() < 0.7 else acc])
        if rng.random() < 0.3:
            pairs.append(['whole', leaf(ctx, sh)[0]])
        return ['dict', pairs], None
    if c == 'dictany':
        pairs = [[f'f{i}', G(sh)[0]] for i in range(rng.randint(1, 3))]
        return [rng.choice(['dict', 'dict', 'odict']), pairs], None
    if c == 'chain' or c == 'pipe':
        steps = []
        cur = sh
        save = list(ctx.bound)
        for _ in range(rng.randint(2, 3)):
            s, cur = gen_spec(ctx, cur, d)
            steps.append(s)
        ctx.bound = save
        return [rng.choice(['tuple', 'tuple', 'Pipe']), steps], cur
    if c == 'listspec':
        elem = sh['v'][0] if sh['v'] else None
        sub, rsh = G(elem)
        return ['list', [sub]], None
    if c == 'wild':
        ch = children(sh)
        kk, vv = rng.choice(ch)
        if rng.random() < 0.5:
            return ['str', '*'], None
        if kind_of(vv) in ('dict', 'list', 'obj'):
            return ['str', f'{kk}.*'], None
        return ['str', '**'], None
    if c == 'fold':
        if is_num_list(sh):
            r = rng.random()
            if r < 0.4:
                return ['Sum'], 0
            if r < 0.6:
                return ['Sum', None, ['fn', 'float']], 0.0
            if r < 0.8:
                return ['Fold', ['T', 'T', []], ['fn', 'int'], ['fn', rng.choice(['add', 'acc_max'])]], 0
            return ['Fold', ['T', 'T', []], ['fn', 'list'], ['fn', 'acc_cat']], None
        r = rng.random()
        if r < 0.6:
            return ['Flatten'], {'t': 'list', 'v': [1, 2]}
        if r < 0.8:
            return ['tuple', [['Flatten', None, 'lazy'], ['fn', 'list']]], {'t': 'list', 'v': [1, 2]}
        return ['Flatten', None, ['fn', 'tuple']], None
    if c == 'group':
        r = rng.random()
        keyf = rng.choice([['T', 'T', [['%', 2]]], ['fn', 'mod3'], ['fn', 'is_even']])
        if r < 0.35:
            return ['Group', ['dict', [[{'t': 'spec', 'v': keyf}, ['list', [['T', 'T', []]]]]]]], None
        if r < 0.6:
            agg = rng.choice([['Max'], ['Min'], ['Avg'], ['Sum'], ['Count']])
            return ['Group', ['dict', [[{'t': 'spec', 'v': keyf}, agg]]]], None
        if r < 0.8:
            return ['Group', rng.choice([['Max'], ['Min'], ['Sum'], ['Count'], ['First']])], 0
        return ['Group', ['Limit', rng.randint(1, 3)]], None
    if c == 'iter':
        elem = sh['v'][0] if sh['v'] else None
        sub = G(elem)[0] if rng.random() < 0.5 else None
        stages = []
        for _ in range(rng.randint(0, 2)):
            r = rng.random()
            if r < 0.25:
                stages.append(['map', leaf(ctx, elem)[0]])
            elif r < 0.32 and not stages:
                stages.append(['unique', None])
            elif r < 0.5:
                stages.append(['limit', rng.randint(1, 3)])
            elif r < 0.7:
                stages.append(['chunked', rng.randint(1, 3)])
            elif r < 0.85:
                stages.append(['filter', ['probe', ctx.new_pid(), 'true']] if ctx.probes else ['filter', None])
            elif r < 0.9:
                stages.append(['windowed', 2])
            elif r < 0.95:
                stages.append(['unique', None])
            else:
                stages.append([rng.choice(['takewhile', 'dropwhile']), ['fn', 'truthy']])
        term = rng.choice([['all'], ['all'], ['first'], None])
        spec = ['Iter', sub, None, stages, term]
        if term is None:
            return ['tuple', [spec, ['fn', 'list']]], None
        return spec, None
    if c == 'coalesce':
        subs = []
        for _ in range(rng.randint(1, 3)):
            if rng.random() < 0.5:
                subs.append(failing(ctx, sh))
            else:
                subs.append(G(sh)[0])
        o = {}
        r = rng.random()
        if r < 0.4:
            o['default'] = rng.choice(['dflt', None, 0, {'t': 'spec', 'v': ['T', 'T', []]},
                                       {'t': 'list', 'v': []}, {'t': 'dict', 'v': []}, {'t': 'list', 'v': [1]}])
        elif r < 0.5 and ctx.probes:
            o['default_factory'] = ['probe', ctx.new_pid(), 'tok']
        if rng.random() < 0.2:
            o['skip'] = rng.choice([None, 0, {'t': 'tuple', 'v': [None, 0]}])
        if rng.random() < 0.25:
            o['skip_exc'] = rng.choice([['GlomError'], ['ValueError', 'GlomError'],
                                        ['ZeroDivisionError'], ['Exception']])
        return ['Coalesce', subs, o], None
    if c == 'scope':
        name = rng.choice(['v', 'w', 'u'])
        bsub, bsh = G(sh)
        save = list(ctx.bound)
        ctx.bound.append(name)
        body, rsh = G(sh)
        reader = scope_reader(ctx)
        ctx.bound = save
        binder = ['T', 'S', [['(', [[], {name: {'t': 'spec', 'v': bsub}}]]]] if rng.random() < 0.7 \
            else ['tuple', [bsub, ['T', 'A', [['.', name]]]]]
        if binder[0] == 'tuple':
            # (sub, A.name) changes the target of later steps to sub's result; re-derive from that
            return ['tuple', [binder, reader]], None
        if rng.random() < 0.5:
            return ['tuple', [binder, ['dict', [['body', body], ['read', reader]]]]], None
        return ['tuple', [binder, body, reader]], None
    if c == 'accum':
        # a mutable literal bound with S() and filled through the scope: every evaluation starts from a
        # fresh copy of the literal (what another call, or an earlier one, put there never shows)
        if rng.random() < 0.5:
            return ['tuple', [['T', 'S', [['(', [[], {'acc': {'t': 'list', 'v': []}}]]]],
                              ['T', 'S', [['.', 'acc'], ['.', 'append'], ['(', [[{'t': 'spec', 'v': ['T', 'T', []]}], {}]]]],
                              ['T', 'S', [['.', 'acc']]]]], None
        lit = {'t': 'dict', 'v': [] if rng.random() < 0.7 else [['z', 0]]}
        return ['tuple', [['T', 'S', [['(', [[], {'acc': lit}]]]],
                          ['T', 'S', [['(', [[], {'before': {'t': 'spec', 'v': [
                              'Coalesce', [['T', 'S', [['.', 'acc'], ['[', 'k']]]], {'default': 'unset'}]}}]]]],
                          ['T', 'A', [['.', 'acc'], ['[', 'k']]],
                          ['dict', [['before', ['T', 'S', [['.', 'before']]]], ['acc', ['T', 'S', [['.', 'acc']]]]]]]], None
    if c == 'globals':
        name = rng.choice(['g1', 'g2'])
        return ['tuple', [['T', 'A', [['.', 'globals'], ['.', name]]],
                          G(sh)[0],
                          ['T', 'S', [['.', 'globals'], ['.', name]]]]], sh
    if c == 'vars':
        # Vars with keyword defaults / bare / with a base mapping; 'before' reads a variable that this
        # evaluation has not assigned yet (a value left behind by an earlier evaluation would show)
        form = rng.choice(['defaults', 'defaults', 'bare', 'base'])
        vrec = {'defaults': ['Vars', [], [['cnt', 0]]], 'bare': ['Vars', [], []],
                'base': ['Vars', [['cnt', 0]], []]}[form]
        reads = [['item', ['T', 'S', [['.', 'vs'], ['.', 'item']]]], ['before', ['T', 'S', [['.', 'before']]]]]
        if form != 'bare':
            reads.insert(0, ['cnt', ['T', 'S', [['.', 'vs'], ['.', 'cnt']]]])
        return ['tuple', [['T', 'S', [['(', [[], {'vs': {'t': 'spec', 'v': vrec}}]]]],
                          ['T', 'S', [['(', [[], {'before': {'t': 'spec', 'v': [
                              'Coalesce', [['T', 'S', [['.', 'vs'], ['.', 'item']]]], {'default': 'unset'}]}}]]]],
                          ['T', 'A', [['.', 'vs'], ['.', 'item']]],
                          ['dict', reads]]], None
    if c == 'fill':
        items = [{'t': 'spec', 'v': G(sh)[0]} if rng.random() < 0.6 else scalar(rng)
                 for _ in range(rng.randint(1, 3))]
        shape = rng.choice(['list', 'tuple', 'dict'])
        if shape == 'dict':
            return ['Fill', ['lit', {'t': 'dict', 'v': [[f'k{i}', it] for i, it in enumerate(items)]}]], None
        return ['Fill', ['lit', {'t': shape, 'v': items}]], None
    if c == 'match':
        tn = {'dict': 'dict', 'list': 'list', 'int': 'int', 'str': 'str', 'tuple': 'tuple'}.get(k, 'object')
        if rng.random() < 0.25:
            tn = rng.choice(['int', 'str', 'dict', 'list'])
        o = {'default': rng.choice(['nomatch', {'t': 'dict', 'v': []}, {'t': 'list', 'v': []}])} if rng.random() < 0.3 else None
        if k == 'list' and rng.random() < 0.5:
            et = {'int': 'int', 'dict': 'dict', 'list': 'list', 'str': 'str'}.get(
                kind_of(sh['v'][0]) if sh['v'] else None, 'object')
            return ['Match', ['list', [['type', et]]], o], sh
        if ctx.probes and rng.random() < 0.3:
            return ['Match', ['probe', ctx.new_pid(), 'true'], o], sh
        return ['Match', ['type', tn], o], sh
    if c == 'switch':
        cases = []
        for _ in range(rng.randint(1, 3)):
            cases.append([pred(ctx, sh), G(sh)[0]])
        o = {'default': rng.choice(['sw-default', {'t': 'list', 'v': []}, {'t': 'dict', 'v': []}])} if rng.random() < 0.4 else None
        return ['Switch', cases, o], None
    if c == 'bool':
        op = rng.choice(['Or', 'And'])
        subs = [pred(ctx, sh) if rng.random() < 0.6 else G(sh)[0] for _ in range(rng.randint(1, 3))]
        o = {'default': 'bool-default'} if rng.random() < 0.3 else None
        if rng.random() < 0.15:
            return ['Not', subs[0]], sh
        return [op, subs, o], None
    if c == 'check':
        o = {}
        r = rng.random()
        if r < 0.35:
            o['type'] = rng.choice(['int', 'str', 'dict', 'list'])
        elif r < 0.6 and ctx.probes:
            o['validate'] = ['probe', ctx.new_pid(), rng.choice(['true', 'true', 'false'])]
        elif r < 0.8:
            o['instance_of'] = [rng.choice(['int', 'str', 'dict', 'list', 'object'])]
        else:
            o['equal_to'] = scalar(rng)
        if rng.random() < 0.35:
            o['default'] = rng.choice(['chk-default', {'t': 'SKIP'}])
        return ['Check', None if rng.random() < 0.5 else leaf(ctx, sh)[0], o], None
    if c == 'call':
        f = ['probe', ctx.new_pid(), 'tok'] if ctx.probes else ['fn', 'pair']
        args = {'t': 'list', 'v': [{'t': 'spec', 'v': leaf(ctx, sh)[0]}]}
        if rng.random() < 0.5:
            return ['Call', f, args, None], None
        return ['T', 'T', [['.', '__class__'], ['.', '__name__']]], 'name'
    if c == 'invoke':
        if isinstance(sh, dict) and sh.get('t') in ('list', 'dict') and rng.random() < 0.4:
            # star arguments taken straight from the target, with more arguments after (and before)
            # them: the call gets a NEW argument list / mapping, the target's own is only read
            star = ['*', ['T', 'T', []], None] if sh['t'] == 'list' else ['*', None, ['T', 'T', []]]
            ops = [star, ['C', [scalar(rng)], {'zz': 1}]]
            if rng.random() < 0.3:
                ops.insert(0, ['C', [0], {}])
            if rng.random() < 0.3:
                ops.append(star)
            return ['Invoke', ['fn', 'argpack'], ops], None
        f = ['probe', ctx.new_pid(), 'tok'] if ctx.probes else ['fn', 'pair']
        ops = []
        for _ in range(rng.randint(1, 2)):
            if rng.random() < 0.5:
                ops.append(['C', [scalar(rng)], {}])
            else:
                ops.append(['S', [leaf(ctx, sh)[0]], {}])
        return ['Invoke', f, ops], None
    if c == 'specwrap':
        sub, rsh = G(sh)
        if rng.random() < 0.4:
            save = list(ctx.bound)
            ctx.bound.append('sv')
            sub2 = ['dict', [['in', sub], ['sv', scope_reader(ctx, 'sv')]]]
            ctx.bound = save
            return ['Spec', sub2, [['sv', scalar(rng)]]], None
        return ['Spec', sub], rsh
    if c == 'ref':
        # recursion over nested lists/dicts: Ref('r', Match(Switch({list: [Ref('r')], object: T})))
        name = rng.choice(['r1', 'r2'])
        return ['Ref', name, ['Match', ['Switch', [
            [['type', 'list'], ['list', [['Ref', name]]]],
            [['type', 'dict'], ['Auto', ['fn', 'len']]],
            [['type', 'object'], ['Auto', leaf(ctx, None)[0]]]]]]], None
    if c == 'custom':
        return ['custom', ctx.new_pid(), G(sh)[0], rng.choice(['scope', 'scope', 'reenter'])], None
    if c == 'assign':
        return mutation(ctx, sh, 'assign')
    if c == 'delete':
        return mutation(ctx, sh, 'delete')
    raise AssertionError(c)


def access_to(ctx, sh, key):
    rng = ctx.rng
    k = kind_of(sh)
    r = rng.random()
    if k == 'obj':
        if r < 0.5:
            return ['str', key]
        if r < 0.85:
            return ['T', 'T', [['.', key]]]
        return ['Path', [key]]
    if r < 0.5:
        return ['str', key]
    if r < 0.8:
        return ['T', 'T', [['[', key]]]
    return ['Path', [key]]


def access(ctx, sh):
    """a path of 1-3 segments following the shape"""
    rng = ctx.rng
    segs = []
    cur = sh
    for _ in range(rng.randint(1, 3)):
        ch = children(cur)
        if not ch:
            break
        kk, vv = rng.choice(ch)
        segs.append((kind_of(cur), kk))
        cur = vv
    if ctx.rng.random() < ctx.fail:
        segs.insert(rng.randint(0, len(segs)), ('dict', 'zz'))
        cur = None
    style = rng.random()
    if style < 0.45 and all(isinstance(s[1], (str, int)) and '.' not in str(s[1]) for s in segs):
        return ['str', '.'.join(str(s[1]) for s in segs)], cur
    if style < 0.8:
        ops = []
        for kd, kk in segs:
            ops.append(['.', kk] if kd == 'obj' and isinstance(kk, str) else ['[', kk])
        return ['T', 'T', ops], cur
    return ['Path', [s[1] for s in segs]], cur


def leaf(ctx, sh):
    rng = ctx.rng
    k = kind_of(sh)
    opts = ['T']
    if ctx.probes and ctx.on('probe'):
        opts += ['probe'] * 3
    if ctx.on('val'):
        opts += ['val']
    if ctx.on('fn'):
        opts += ['fn'] * 2
    if k in ('dict', 'obj') and children(sh):
        opts += ['access'] * 3
    if ctx.bound and ctx.on('scope'):
        opts += ['sread'] * 2
    if k == 'int' and ctx.on('T'):
        opts += ['arith'] * 2
    c = rng.choice(opts)
    if c == 'T':
        return ['T', 'T', []], sh
    if c == 'probe':
        mode = rng.choice(['id', 'id', 'tok'])
        return ['probe', ctx.new_pid(), mode], (sh if mode == 'id' else 'tok')
    if c == 'val':
        v = scalar(rng)
        return ['Val', v], v
    if c == 'fn':
        if k in ('list', 'dict', 'tuple', 'str'):
            return ['fn', rng.choice(['len', 'repr', 'bool', 'type'])], 0
        if k == 'int':
            return ['fn', rng.choice(['inc', 'double', 'neg', 'str', 'tostr', 'is_even'])], 1
        return ['fn', rng.choice(['repr', 'bool', 'type', 'wrap', 'pair'])], None
    if c == 'access':
        return access(ctx, sh)
    if c == 'sread':
        return scope_reader(ctx), None
    if c == 'arith':
        op = rng.choice(['+', '-', '*', '%', '/'])
        arg = rng.choice([1, 2, 3, 0]) if op in ('%', '/') else rng.randint(0, 4)
        return ['T', 'T', [[op, arg]]], 1
    raise AssertionError(c)


def scope_reader(ctx, name=None):
    rng = ctx.rng
    name = name or rng.choice(ctx.bound or ['v'])
    r = rng.random()
    if r < 0.4:
        return ['T', 'S', [['.', name]]]
    if r < 0.7:
        return ['T', 'S', [['[', name]]]
    return ['Coalesce', [['T', 'S', [['.', name]]]], {'default': 'unbound'}]


def failing(ctx, sh):
    rng = ctx.rng
    r = rng.random()
    if r < 0.35:
        return ['str', rng.choice(['zz', 'zz.y', 'a.zz.q'])]
    if r < 0.55:
        return ['T', 'T', [['.', 'nope']]]
    if r < 0.7:
        return ['T', 'T', [['[', 'zz']]]
    if r < 0.8:
        return ['fn', rng.choice(['fail_div', 'fail_val'])]
    if r < 0.9:
        return ['T', 'S', [['.', 'unbound_name']]]
    return ['Check', None, {'equal_to': 'never-equal'}]


def pred(ctx, sh):
    rng = ctx.rng
    k = kind_of(sh)
    r = rng.random()
    if r < 0.3:
        return ['type', rng.choice(['int', 'str', 'dict', 'list', 'object'])]
    if r < 0.5 and k == 'int':
        return ['M', 'M', rng.choice(['<', '>', '==', '!=', '<=', '>=']), rng.randint(0, 6)]
    if r < 0.6:
        return ['Match', ['type', {'dict': 'dict', 'list': 'list', 'int': 'int'}.get(k, 'object')]]
    if r < 0.75 and ctx.probes:
        return ['Match', ['probe', ctx.new_pid(), rng.choice(['true', 'false'])]]
    if r < 0.85:
        return failing(ctx, sh)
    return ['Check', None, {'instance_of': [rng.choice(['int', 'dict', 'list', 'str', 'object'])]}]


def mutation(ctx, sh, what):
    rng = ctx.rng
    ch = children(sh)
    k = kind_of(sh)
    if what == 'assign':
        if k == 'list':
            if not ch:
                return ['T', 'T', []], sh
            key = rng.randrange(len(ch))
        else:
            key = rng.choice([c[0] for c in ch] + ['new1', 'new2'])
        path = ['str', str(key)] if rng.random() < 0.6 else ['T', 'T', [['.' if k == 'obj' else '[', key]]]
        val = rng.choice([scalar(rng), {'t': 'spec', 'v': ['T', 'T', []]}, {'t': 'list', 'v': [1]}])
        return ['Assign', path, val], sh
    if not ch:
        return ['T', 'T', []], sh
    key = rng.choice(ch)[0]
    path = ['str', str(key)] if rng.random() < 0.6 else ['T', 'T', [['.' if k == 'obj' else '[', key]]]
    return ['Delete', path, rng.random() < 0.3], sh
