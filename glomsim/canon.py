"""Canonical forms: outcomes (values with identity links, exceptions), graph snapshots."""
import re
import types
from collections import OrderedDict

_ADDR = re.compile(r'0x[0-9a-fA-F]{6,}')
# reprs truncated by glom's trace formatter can cut an address anywhere: ' at 0x7f3... (len=3)'
_ADDR_CUT = re.compile(r' at 0(x[0-9a-fA-F]*)?(?=\.\.\.)')


# glom builds this message by iterating a set of keys (hash order): sort the listed keys
_MISSING_KEYS = re.compile(r"(target missing expected keys: )([^\n]*)")


def _sort_keys(m):
    return m.group(1) + ', '.join(sorted(m.group(2).split(', ')))


def norm_text(s):
    s = _ADDR.sub('0x?', _ADDR_CUT.sub(' at 0x?', s))
    if 'target missing expected keys' in s:
        s = _MISSING_KEYS.sub(_sort_keys, s)
    return s


def short(x, n=160):
    try:
        s = repr(x)
    except BaseException as e:  # pragma: no cover
        s = f'<repr failed {type(e).__name__}>'
    s = norm_text(s)
    if len(s) > n:
        s = s[:n] + '…'
    return s


_SCALARS = (int, float, str, bytes, bool, type(None), complex)


def _dict_items(d):
    if isinstance(d, OrderedDict):
        # an OrderedDict keeps its own order list: what a user sees is OrderedDict.items(), which can
        # differ from the underlying dict storage when someone updated it through dict.update()
        return list(OrderedDict.items(d))
    return list(dict.items(d))


def _list_items(l):
    return list(list.__iter__(l))


def canon(v, idmap=None, depth=0, seen=None):
    """JSON-able canonical form of a value.

    idmap: {id(obj): label} for nodes of the target graph (and other caller-owned objects);
    a node found there is rendered with its label so that "the very object" and "an equal
    copy" are distinguishable.
    """
    if seen is None:
        seen = {}
    t = type(v)
    if t is str:
        if depth and "', '" in v and v.startswith("'"):
            # MatchError args carry the hash-ordered key list as one string
            return ', '.join(sorted(v.split(', ')))
        if '0x' in v:
            return norm_text(v)      # e.g. repr() of an object graph computed by the spec itself
        return v
    if t in (int, bool, type(None)):
        return v
    if t is float:
        return ['float', repr(v)]
    if t in (bytes, complex):
        return [t.__name__, repr(v)]
    label = idmap.get(id(v)) if idmap else None
    if id(v) in seen:
        return ['cycle', seen[id(v)]]
    if depth > 40:
        return ['deep', t.__name__]
    seen = dict(seen)
    seen[id(v)] = label if label is not None else len(seen)
    tn = t.__name__
    out = None
    if isinstance(v, dict):
        out = [tn, [[canon(k, idmap, depth + 1, seen), canon(x, idmap, depth + 1, seen)]
                    for k, x in _dict_items(v)]]
    elif isinstance(v, list):
        out = [tn, [canon(x, idmap, depth + 1, seen) for x in _list_items(v)]]
    elif isinstance(v, tuple):
        out = [tn, [canon(x, idmap, depth + 1, seen) for x in tuple.__iter__(v)]]
    elif isinstance(v, (set, frozenset)):
        items = [canon(x, idmap, depth + 1, seen) for x in v]
        out = [tn, sorted(items, key=lambda c: repr(c))]
    elif isinstance(v, BaseException):
        out = canon_exc(v, idmap, depth + 1, seen)
    elif isinstance(v, type):
        out = ['type', v.__name__]
    elif isinstance(v, (types.GeneratorType,)):
        out = ['generator', getattr(v, '__qualname__', '?')]
    else:
        d = None
        if tn == 'SimObj':
            d = v._d
        elif tn == 'SimIter':
            d = {'items': v._items, 'inf': v._inf}
        elif tn == 'SimNum':
            d = {'v': v._v}
        elif tn == 'ScopeVars':
            d = v.__dict__
        elif hasattr(v, '__dict__') and tn in ('Obj', 'ROProp'):
            d = v.__dict__
        elif tn == 'Slotted':
            d = {k: getattr(v, k) for k in v.__slots__ if hasattr(v, k)}
        if d is not None:
            out = [tn, [[k, canon(x, idmap, depth + 1, seen)] for k, x in d.items()]]
        else:
            out = ['obj', tn, short(v)]
    if label is not None:
        return ['@', label, out]
    return out


def canon_exc(e, idmap=None, depth=0, seen=None):
    args = [canon(a, idmap, depth + 1, seen) for a in getattr(e, 'args', ())]
    return ['exc', type(e).__name__, args]


def mentions_recursion(x):
    """does a canonical outcome / event log involve a RecursionError?  Where the interpreter gives up
    depends on how deep the harness's own stack is (thread vs main thread, nested calls), so such
    outcomes are not comparable between a simulated and an isolated run"""
    import json
    return 'RecursionError' in json.dumps(x, default=str)


def mro_names(cls):
    # (two classes may share a __name__: the catalogue's twin carries its own tag)
    return [c.__dict__.get('_sim_tag', c.__name__) for c in cls.__mro__]


def outcome(res, idmap=None, with_text=True):
    """res = ('ok', value) | ('exc', exception)  ->  canonical JSON-able outcome"""
    kind, v = res
    if kind == 'ok':
        return ['ok', canon(v, idmap)]
    d = {'cls': type(v).__name__, 'mro': mro_names(type(v)), 'args': canon_exc(v, idmap)[2]}
    if with_text:
        try:
            d['text'] = norm_text(str(v))
        except BaseException as e2:
            d['text'] = f'<str() raised {type(e2).__name__}>'
    return ['exc', d]


# ---------------------------------------------------------------------------- snapshots

def snapshot(root, extra_roots=()):
    """identity-preserving deep snapshot of an object graph, without calling any
    collaborator method (C-level access only).  Returns {'nodes': {nid: (type, content)},
    'root': nid, 'ids': {nid: id(obj)}} where content refers to children by nid."""
    nodes = {}
    ids = {}
    order = {}
    refs = []       # keeps every visited object alive as long as the snapshot: ids stay unambiguous

    def visit(v):
        t = type(v)
        if t in _SCALARS:
            return ['s', t.__name__, repr(v)]
        key = id(v)
        if key in order:
            return ['n', order[key]]
        nid = order[key] = len(order)
        ids[nid] = key
        refs.append(v)
        tn = t.__name__
        if isinstance(v, dict):
            content = [[visit(k), visit(x)] for k, x in _dict_items(v)]
            extra = _inst_dict(v)
        elif isinstance(v, list):
            content = [visit(x) for x in _list_items(v)]
            extra = _inst_dict(v)
        elif isinstance(v, tuple):
            content = [visit(x) for x in tuple.__iter__(v)]
            extra = _inst_dict(v) if t is not tuple else None
        elif isinstance(v, (set, frozenset)):
            content = sorted((visit(x) for x in v), key=repr)
            extra = None
        elif tn == 'SimObj':
            content = [[k, visit(x)] for k, x in v._d.items()]
            extra = None
        elif tn == 'SimIter':
            content = [visit(x) for x in v._items]
            extra = None
        elif tn == 'Probe':
            content = tn + ':' + str(v.pid)
            extra = None
        elif isinstance(v, (type, types.FunctionType, types.BuiltinFunctionType,
                            types.MethodType, types.ModuleType)):
            content = short(v)
            extra = None
        else:
            content = []
            extra = None
            d = getattr(v, '__dict__', None)
            if isinstance(d, dict):
                content.append(['__dict__', [[k, visit(x)] for k, x in d.items()]])
            for cls in t.__mro__:
                for s in _slots_of(cls):
                    try:
                        x = getattr(v, s)
                    except AttributeError:
                        continue
                    content.append([s, visit(x)])
            if not content:
                content = short(v)
        if extra:
            content = [content, ['__dict__', [[k, visit(x)] for k, x in extra.items()]]]
        nodes[nid] = [tn, content]
        return ['n', nid]

    r = visit(root)
    xs = [visit(x) for x in extra_roots]
    return {'root': r, 'extra': xs, 'nodes': nodes, 'ids': ids, '_refs': refs}


def _slots_of(cls):
    s = cls.__dict__.get('__slots__', ())
    if isinstance(s, str):
        s = (s,)
    return [x for x in s if x not in ('__dict__', '__weakref__', '_k', '_sid')]


def _inst_dict(v):
    try:
        d = object.__getattribute__(v, '__dict__')
    except AttributeError:
        return None
    return d if isinstance(d, dict) and d else None


def snap_equal(a, b):
    """same structure AND same identities"""
    return a['root'] == b['root'] and a['extra'] == b['extra'] and a['nodes'] == b['nodes'] \
        and a['ids'] == b['ids']


def snap_struct(a):
    """structure only (for comparing a graph with a separately built shadow)"""
    return [a['root'], a['nodes']]


def snap_diff(a, b):
    out = []
    if a['root'] != b['root']:
        out.append(['root', a['root'], b['root']])
    for nid in sorted(set(a['nodes']) | set(b['nodes'])):
        x, y = a['nodes'].get(nid), b['nodes'].get(nid)
        if x != y:
            out.append([nid, x, y])
        elif a['ids'].get(nid) != b['ids'].get(nid):
            out.append([nid, 'identity changed'])
    return out[:6]


_SNAP_KEEP = []


def snapshot_by_id(root):
    """{id(container): [type name, content]} with children referenced by id (identity-stable
    encoding: inserting or removing a subtree does not renumber the other nodes)"""
    snap = snapshot(root)
    ids = snap['ids']
    _SNAP_KEEP.append(snap['_refs'])
    if len(_SNAP_KEEP) > 64:
        del _SNAP_KEEP[:32]

    def enc(c):
        if isinstance(c, list):
            if len(c) == 2 and c[0] == 'n' and isinstance(c[1], int):
                return ['i', ids[c[1]]]
            return [enc(x) for x in c]
        return c
    return {ids[nid]: [tn, enc(content)] for nid, (tn, content) in snap['nodes'].items()}
