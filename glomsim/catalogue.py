"""Exception catalogue for injected faults (C04's "catalogue of exception classes").

A fault descriptor is a JSON-able dict ``{'cls': <name>}``.  Classes that derive from
GlomError must derive from the GlomError of the *private instance* under test, so the
catalogue is bound to an instance with :func:`bind`.
"""

BUILTIN = {
    'ValueError': ValueError, 'KeyError': KeyError, 'IndexError': IndexError,
    'AttributeError': AttributeError, 'TypeError': TypeError,
    'ZeroDivisionError': ZeroDivisionError, 'RuntimeError': RuntimeError,
    'LookupError': LookupError, 'ArithmeticError': ArithmeticError,
    'NotImplementedError': NotImplementedError, 'AssertionError': AssertionError,
    'OverflowError': OverflowError, 'OSError': OSError, 'UnicodeDecodeError': UnicodeDecodeError,
    'KeyboardInterrupt': KeyboardInterrupt, 'SystemExit': SystemExit,
    'GeneratorExit': GeneratorExit, 'Exception': Exception,
    'StopIteration': StopIteration,      # (what generator frames turn into RuntimeError, PEP 479)
}


class UserErr(Exception):
    """user class with an attribute set in __init__, args passed on unchanged"""
    def __init__(self, msg):
        super().__init__(msg)
        self.detail = 'detail:' + str(msg)


class UserValueErr(ValueError):
    pass


class UserKeyErr(KeyError):
    def __init__(self, msg):
        super().__init__(msg)
        self.key = msg


class UserKwOnly(Exception):
    """keyword-only constructor: cannot be rebuilt from args"""
    def __init__(self, *, code):
        super().__init__(code)
        self.code = code


class UserArity(Exception):
    """arity-changing constructor: type(e)(*e.args) raises TypeError"""
    def __init__(self, a, b):
        super().__init__(f'{a}-{b}')
        self.a, self.b = a, b


class UserRewrite(Exception):
    """args-rewriting constructor: type(e)(*e.args) succeeds but yields different args"""
    def __init__(self, a):
        super().__init__(a + a)


class UserBase(BaseException):
    pass


class UserFlaky(Exception):
    """some instances can be rebuilt from their args, others cannot (keyword-only extra field that
    is appended to args): what glom learns from one instance must not be applied to the next"""
    def __init__(self, msg, *, extra=None):
        if extra is None:
            super().__init__(msg)
        else:
            super().__init__(msg, extra)
        self.extra = extra


class UserCaret(ValueError):
    """a parser-style message: several lines, one of them only a column pointer, one of them blank"""
    def __init__(self, msg):
        super().__init__(msg if '\n' in str(msg) else f'{msg}\n      ^~~\n\n>>after the pointer of {msg}')


USER = {c.__name__: c for c in (UserErr, UserValueErr, UserKeyErr, UserKwOnly, UserArity,
                                UserRewrite, UserBase, UserFlaky, UserCaret)}


def _twin():
    class UserErr(Exception):
        """a DIFFERENT class that happens to be called UserErr too (another module's error): nothing
        learnt about, or built for, one of them may be applied to the other"""
        _sim_tag = 'UserErr#twin'

        def __init__(self, msg):
            super().__init__(msg)
            self.origin = 'twin:' + str(msg)
    UserErr.__qualname__ = 'UserErr'
    UserErr.__module__ = 'glomsim.twin'
    return UserErr


TWINS = {'UserErrTwin': _twin()}

BASE_ONLY = ('KeyboardInterrupt', 'SystemExit', 'GeneratorExit', 'UserBase')
GLOM_USER = ('UGlomErr', 'UGlomErrInit', 'UGlomKwOnly', 'UGlomArity', 'UGlomMixed', 'UGlomRewrite',
             'UGlomLookup', 'UGlomMultiline')
NOT_REBUILDABLE = ('UserKwOnly', 'UserArity', 'UGlomKwOnly', 'UGlomArity')

ALL = tuple(BUILTIN) + tuple(USER) + GLOM_USER
EXC_ONLY = tuple(n for n in ALL if n not in BASE_ONLY)
# classes that are safe everywhere (plain Exception subclasses that can be rebuilt from args)
PLAIN = ('ValueError', 'KeyError', 'IndexError', 'AttributeError', 'TypeError',
         'ZeroDivisionError', 'RuntimeError', 'UserErr', 'UserValueErr', 'OSError')


_BOUND = {}


def bind(G):
    """GlomError-derived user classes for the private instance G (cached on the instance)"""
    key = id(G.pkg)
    got = _BOUND.get(key)
    if got is not None and got[0] is G.pkg:
        return got[1]
    GE = G.GlomError

    class UGlomErr(GE):
        pass

    class UGlomErrInit(GE):
        def __init__(self, msg):
            super().__init__(msg)
            self.note = 'note:' + str(msg)

    class UGlomKwOnly(GE):
        def __init__(self, *, code):
            super().__init__(code)
            self.code = code

    class UGlomArity(GE):
        def __init__(self, a, b):
            super().__init__(f'{a}-{b}')
            self.a, self.b = a, b

    class UGlomMixed(GE, ValueError):
        pass

    class UGlomLookup(GE):
        """the constructor looks its argument up in a table: rebuilding from args raises KeyError"""
        TABLE = {'E1': 'first failure'}

        def __init__(self, code):
            super().__init__(self.TABLE[code.split(':')[0] if isinstance(code, str) and code.startswith('E1') else code])
            self.code = code

    class UGlomMultiline(GE):
        """a message of two lines: the second one must not get lost in a trace"""
        def __init__(self, msg):
            super().__init__(msg if '\n' in str(msg) else f'{msg}\n>>second line of {msg}')

    class UGlomRewrite(GE):
        def __init__(self, a):
            super().__init__(a + a)

    d = {c.__name__: c for c in (UGlomErr, UGlomErrInit, UGlomKwOnly, UGlomArity, UGlomMixed,
                                UGlomRewrite, UGlomLookup, UGlomMultiline)}
    for c in d.values():
        c.__qualname__ = c.__name__
    if len(_BOUND) > 64:
        _BOUND.clear()
    _BOUND[key] = (G.pkg, d)
    return d


class Catalogue:
    def __init__(self, G):
        self.G = G
        self.glom_user = bind(G) if G is not None else {}

    def cls(self, name):
        if name in BUILTIN:
            return BUILTIN[name]
        if name in USER:
            return USER[name]
        if name in TWINS:
            return TWINS[name]
        if name in self.glom_user:
            return self.glom_user[name]
        # glom's own classes (e.g. 'PathAccessError') for skip_exc sets
        return getattr(self.G, name)

    def make(self, desc, marker):
        name = desc['cls']
        c = self.cls(name)
        msg = f'inj:{marker}'
        if name == 'OSError':
            e = OSError(5, msg, '/sim/file')
        elif name == 'UnicodeDecodeError':
            e = UnicodeDecodeError('utf-8', b'\xff' + msg.encode(), 0, 1, 'invalid start byte')
        elif name in ('UserKwOnly', 'UGlomKwOnly'):
            e = c(code=msg)
        elif name in ('UserArity', 'UGlomArity'):
            e = c(msg, 'b')
        elif name == 'UGlomLookup':
            e = c('E1')
        elif name == 'UserFlaky':
            e = c(msg, extra='x') if desc.get('variant') == 'bad' else c(msg)
        elif name == 'UnregisteredTarget':
            # glom's own "no handler for this target type" (as a nested construct raises it)
            e = c('iterate', int, {}, path=self.G.Path(msg))
        elif name == 'SystemExit':
            e = SystemExit(3)
        elif name in ('KeyboardInterrupt', 'GeneratorExit'):
            e = c()
        else:
            e = c(msg)
        try:
            e._sim_marker = marker
        except Exception:
            pass
        return e
