"""Plain-Python reference model for path access, assignment and deletion (C11, C12).

Works on a *shadow* graph: a second build of the same target recipe.  All access goes through
C-level methods (dict.__getitem__, list.__setitem__, SimObj._d …) so that the model never triggers
a collaborator point.  The model is the "corresponding plain Python nested item/attribute
assignment / del" of the statements:

    'P' segment : mapping -> key; sequence -> int(index); anything else -> attribute
    '[' segment : item;   '.' segment : attribute
    'x' segment : every child (mapping values, sequence items, attribute values)
"""
from collections import OrderedDict


class Absent(Exception):
    """the segment cannot be accessed in the way glom treats as 'missing' (-> PathAccessError)"""


class Fails(Exception):
    """the plain operation raises something else (propagates as an error)"""


def is_map(x):
    return isinstance(x, dict)


def _mapcls(x):
    """the class whose C-level methods to use: OrderedDict keeps its own order list, so it must not be
    written through dict.__setitem__; simulator-owned dict subclasses are written through dict (no points)"""
    return OrderedDict if isinstance(x, OrderedDict) else dict


def is_seq(x):
    return isinstance(x, (list, tuple))


def _attrs(x):
    tn = type(x).__name__
    if tn == 'SimObj':
        return x._d
    d = getattr(x, '__dict__', None)
    return d if isinstance(d, dict) else None


def get_seg(cur, op, arg):
    if op == 'P':
        try:
            if is_map(cur):
                return dict.__getitem__(cur, arg)
            if is_seq(cur):
                return (list if isinstance(cur, list) else tuple).__getitem__(cur, int(arg))
            return _getattr(cur, arg)
        except Exception as e:
            raise Absent(repr(e))
    if op == '[':
        try:
            if is_map(cur):
                return dict.__getitem__(cur, arg)
            if isinstance(cur, list):
                return list.__getitem__(cur, arg)
            if isinstance(cur, tuple):
                return tuple.__getitem__(cur, arg)
            if isinstance(cur, str):
                return cur[arg]
            raise TypeError('not subscriptable')
        except (KeyError, IndexError, TypeError) as e:
            raise Absent(repr(e))
    if op == '.':
        try:
            return _getattr(cur, arg)
        except AttributeError as e:
            raise Absent(repr(e))
    raise ValueError(op)


def _getattr(cur, name):
    if not isinstance(name, str):
        raise AttributeError('attribute name must be string')
    tn = type(cur).__name__
    if tn == 'SimObj':
        if name in cur._d:
            return cur._d[name]
        raise AttributeError(name)
    return getattr(cur, name)       # plain objects, builtins (methods etc.)


def set_seg(cur, op, arg, val):
    """the plain assignment; raises on failure"""
    if op == 'P':
        if is_map(cur):
            _mapcls(cur).__setitem__(cur, arg, val)
            return
        if isinstance(cur, list):
            list.__setitem__(cur, int(arg), val)
            return
        if isinstance(cur, (tuple, str, bytes, frozenset, set, int, float, type(None), bool, range)):
            raise TypeError('unassignable')
        _setattr(cur, arg, val)
        return
    if op == '[':
        if is_map(cur):
            _mapcls(cur).__setitem__(cur, arg, val)
        elif isinstance(cur, list):
            list.__setitem__(cur, arg, val)
        else:
            raise TypeError('no item assignment')
        return
    if op == '.':
        _setattr(cur, arg, val)
        return
    raise ValueError(op)


def _setattr(cur, name, val):
    if not isinstance(name, str):
        raise TypeError('attribute name must be string')
    tn = type(cur).__name__
    if tn == 'SimObj':
        cur._d[name] = val
        return
    if isinstance(cur, (dict, list)) and not hasattr(cur, '__dict__'):
        raise AttributeError('no attributes')
    setattr(cur, name, val)


def del_seg(cur, op, arg):
    """-> raises KeyError/IndexError/AttributeError for clean absence, others for other failures"""
    if op == 'P':
        if is_map(cur):
            _mapcls(cur).__delitem__(cur, arg)
            return
        if isinstance(cur, list):
            list.__delitem__(cur, int(arg))
            return
        if isinstance(cur, (tuple, str, bytes, frozenset, set, int, float, type(None), bool, range)):
            raise TypeError('undeletable')
        _delattr(cur, arg)
        return
    if op == '[':
        if is_map(cur):
            _mapcls(cur).__delitem__(cur, arg)
        elif isinstance(cur, list):
            list.__delitem__(cur, arg)
        else:
            raise TypeError('no item deletion')
        return
    if op == '.':
        _delattr(cur, arg)
        return
    raise ValueError(op)


def _delattr(cur, name):
    if not isinstance(name, str):
        raise TypeError('attribute name must be string')
    tn = type(cur).__name__
    if tn == 'SimObj':
        if name in cur._d:
            del cur._d[name]
            return
        raise AttributeError(name)
    delattr(cur, name)


def children(cur):
    """children for a '*' step, in natural order; None if the value has none"""
    if is_map(cur):
        return list(dict.values(cur))
    if is_seq(cur):
        # glom asks the 'keys' handler first and the 'iterate' handler only when no 'keys' handler
        # exists.  list has no 'keys' registration, so a list SUBCLASS whose instances carry a
        # __dict__ is "object-style" for '*': its matches are its instance attributes, not its items
        # (pristine behaviour; what '*' matches is the read side's business, not C11/C12's).
        d = getattr(cur, '__dict__', None)
        if d is not None and hasattr(d, 'keys'):
            return list(d.values())
        return list(cur)
    a = _attrs(cur)
    if a is not None and type(cur).__name__ != 'SimObj':
        return list(a.values())
    return None


def descendants(cur):
    """matches of a '**' step: the value itself, then everything below it in the order glom's
    work-list visits it (children appended while the list is walked; a container reached twice is
    listed twice but expanded once, so cyclic graphs terminate)"""
    nxt = list(children(cur) or [])
    sofar = set()
    i = 0
    while i < len(nxt):
        item = nxt[i]
        i += 1
        if id(item) not in sofar:
            sofar.add(id(item))
            nxt.extend(children(item) or [])
    return [cur] + nxt


def walk(root, segs, absent_at=None):
    """follow wildcard-free segs; -> value, or raises Absent with .idx = failing segment index.
    absent_at=i forces segment i to count as absent (an access fault absorbed as "missing")"""
    cur = root
    for i, (op, arg) in enumerate(segs):
        try:
            if i == absent_at:
                raise Absent('forced')
            cur = get_seg(cur, op, arg)
        except Absent as e:
            e.idx = i
            raise
    return cur


def expand(root, segs):
    """all destinations reached by segs that may contain 'x' steps; flat list in traversal order.
    Steps BEFORE the first wildcard are ordinary (raise Absent); after a wildcard, entries for which a
    later step fails are dropped"""
    first = next((i for i, (op, _) in enumerate(segs) if op in ('x', 'X')), len(segs))
    cur = [walk(root, segs[:first])]
    for op, arg in segs[first:]:
        nxt = []
        if op == 'x':
            for c in cur:
                ch = children(c)
                if ch:
                    nxt.extend(ch)
        elif op == 'X':
            for c in cur:
                nxt.extend(descendants(c))
        else:
            for c in cur:
                try:
                    nxt.append(get_seg(c, op, arg))
                except Absent:
                    pass
        cur = nxt
    return cur


def has_wild(segs):
    return any(op in ('x', 'X') for op, _ in segs)


FACTORIES = {
    'dict': dict, 'list': list, 'odict': OrderedDict,
}


def model_assign(root, segs, val, factory=None, absent_at=None):
    """apply the assignment to the shadow graph *root* in place.

    -> ('ok', n_factory_calls) | ('error', reason) | ('partial', reason)
    On 'error' the shadow may have been touched: the caller compares the REAL target with its
    own before-snapshot, not with the shadow."""
    prefix, (lop, larg) = segs[:-1], segs[-1]
    if has_wild(segs):
        if lop in ('x', 'X'):
            return ('error', 'wildcard last')
        try:
            dests = expand(root, prefix)
        except Absent:
            return ('error', 'missing parent before the wildcard')
        done = 0
        for d in dests:
            try:
                set_seg(d, lop, larg, val)
                done += 1
            except Exception as e:
                return ('partial' if done else 'error', repr(e))
        return ('ok', 0)
    try:
        dest = walk(root, prefix, absent_at)
    except Absent as e:
        if factory is None:
            return ('error', 'missing parent')
        idx = e.idx
        # build the tail first (inside-out in glom; the order is not observable), attach last
        calls = 0
        try:
            m = factory()
            calls += 1
            top = m
            rest = segs[idx + 1:]
            cur = m
            for j, (op, arg) in enumerate(rest[:-1]):
                try:
                    cur = get_seg(cur, op, arg)
                    continue
                except Absent:
                    pass
                nxt = factory()
                calls += 1
                # inner attach happens on fresh containers only
                set_seg(cur, op, arg, nxt)
                cur = nxt
            set_seg(cur, rest[-1][0], rest[-1][1], val)
            parent = walk(root, segs[:idx])
            set_seg(parent, segs[idx][0], segs[idx][1], top)
        except Exception as ex:
            return ('error', 'tail/attach failed: ' + repr(ex))
        return ('ok', calls)
    try:
        set_seg(dest, lop, larg, val)
    except Exception as e:
        return ('error', repr(e))
    return ('ok', 0)


def model_delete(root, segs, ignore_missing=False):
    """-> ('ok',) | ('missing-final', exc name) | ('missing-parent',) | ('other', reason) | ('partial',)"""
    prefix, (lop, larg) = segs[:-1], segs[-1]
    if has_wild(segs):
        if lop in ('x', 'X'):
            return ('other', 'wildcard last')
        try:
            dests = expand(root, prefix)
        except Absent:
            return ('missing-parent',)
        done = 0
        for d in dests:
            try:
                del_seg(d, lop, larg)
                done += 1
            except (KeyError, IndexError, AttributeError) as e:
                if ignore_missing and _clean_absence(d, lop, larg, e):
                    continue        # every match is treated on its own: an absent one is skipped
                return ('partial', repr(e)) if done else ('other', repr(e))
            except Exception as e:
                return ('partial', repr(e)) if done else ('other', repr(e))
        return ('ok',)
    try:
        dest = walk(root, prefix)
    except Absent:
        return ('missing-parent',)
    try:
        del_seg(dest, lop, larg)
    except (KeyError, IndexError, AttributeError) as e:
        clean = _clean_absence(dest, lop, larg, e)
        return ('missing-final', type(e).__name__) if clean else ('other', repr(e))
    except Exception as e:
        return ('other', repr(e))
    return ('ok',)


def _clean_absence(dest, op, arg, e):
    """KeyError/IndexError/AttributeError for absence on a container that supports deletion"""
    if is_map(dest) and isinstance(e, KeyError):
        return True
    if isinstance(dest, list) and isinstance(e, IndexError):
        return True
    if isinstance(e, AttributeError) and not isinstance(dest, (dict, list, tuple, str, int, float, type(None))):
        # attribute objects: absent attribute (but not a read-only property / slot quirks)
        tn = type(dest).__name__
        if tn in ('Obj', 'SimObj'):
            return True
    return False
