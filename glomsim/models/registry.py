"""Reference model of handler resolution (C13): "nearest registered type".

The model keeps, per registry and operation, its own bookkeeping of what was registered
(handler names, and which types were registered non-exact), mirroring only the *documented*
bookkeeping of ``register`` (explicit handler, else kept, else auto-discovered).  The resolution
policy is the property's:

  (i)   an exact hit on type(obj) wins;
  (ii)  otherwise the eligible set E = non-exact registered types R with isinstance(obj, R);
  (iii) the handler must belong to a *minimal* element of E (no strictly more specific element);
        R1 is strictly more specific than R2 iff R1 != R2 and (issubclass(R1, R2), or R2 is glom's
        structural "has a __dict__" type and every instance of R1 has a __dict__);
  (iv)  E empty, or the chosen handler False  =>  unregistered.
Where E has several minimal elements the statement ranks none: any is allowed, but the choice must
be stable (checked by the caller across history variants).
"""


def hname(h):
    if h is False or h is None:
        return 'unregistered'
    tag = getattr(h, 'sim_tag', None)
    if tag:
        return tag
    return 'builtin:' + getattr(h, '__qualname__', getattr(h, '__name__', repr(h)))


def instances_have_dict(cls):
    """does every instance of the real class carry a __dict__? (a layout property of the class)"""
    if cls is object:
        return False
    return getattr(cls, '__dictoffset__', 0) != 0


class RegModel:
    def __init__(self, G, auto_ops, default_types, obj_style_keys=None):
        """auto_ops: {op: autodiscover function} (taken from the real registry: auto-discovery is
        not what this model decides); default_types: list of (type, {op: handler}) replayed through
        register() in order"""
        self.G = G
        self.auto = dict(auto_ops)
        self.map = {}        # op -> {type: handler}
        self.tree = {}       # op -> set of non-exact registered types
        self.osk = obj_style_keys
        for t, kw in default_types:
            self.register(t, **kw)

    def register_op(self, op, auto_func, known_types_exact=False):
        # register_op computes handlers for all previously known types
        known = set()
        for m in self.map.values():
            known.update(m.keys())
        tm = self.map.setdefault(op, {})
        for t in known:
            if t not in tm:
                tm[t] = auto_func(t)
        if not known_types_exact:
            self.tree.setdefault(op, set()).update(known)
        self.auto[op] = auto_func

    def register(self, t, exact=False, **handlers):
        ops = sorted(set(self.auto) | set(handlers))
        for op in ops:
            m = self.map.setdefault(op, {})
            if op in handlers:
                h = handlers[op]
            elif t in m:
                h = m[t]
            else:
                h = self.auto[op](t)
            m[t] = h
        if not exact:
            for op in ops:
                self.tree.setdefault(op, set()).add(t)

    def more_specific(self, r1, r2, obj=None):
        if r1 is r2:
            return False
        try:
            if issubclass(r1, r2):
                return True
        except TypeError:
            pass
        if self.osk is not None and r2 is self.osk and r1 is not self.osk:
            # only a REAL base class of the object can outrank the structural "has a __dict__" type
            if obj is not None and r1 not in type(obj).__mro__:
                return False
            return instances_have_dict(r1)
        return False

    def allowed(self, op, obj):
        """-> (set of allowed handler names, detail)"""
        m = self.map.get(op)
        if not m:
            return {'unregistered'}, 'no types for op'
        k = type(obj)
        if k in m:
            return {hname(m[k])}, 'exact'
        E = [r for r in self.tree.get(op, ()) if isinstance(obj, r)]
        if not E:
            return {'unregistered'}, 'E empty'
        minimal = [r for r in E if not any(self.more_specific(r2, r, obj) for r2 in E)]
        return {hname(m[r]) for r in minimal}, 'minimal=' + ','.join(sorted(r.__name__ for r in minimal))
