"""Lexical-frame reference model of glom's scope (C07).

A tiny interpreter for the scope-relevant sub-grammar of spec recipes.  It mirrors one thing only:
which *frame* a binding lives in and which frames a reader can see.

  * every evaluation of a spec gets its own frame, child of the frame it was evaluated from;
  * S(k=..), A.k, Regex groups, Spec(scope=), Ref(name, spec) write into the frame of *their own*
    evaluation;
  * tuple/Pipe: step n+1 is evaluated from step n's frame (chain forward);
  * Switch / Match-dict: the value spec is evaluated from the frame of the key that matched;
  * dict values, list elements, Coalesce/And/Or children, call arguments: siblings;
  * S.globals and Vars objects are shared objects that live as long as the top-level call;
  * a new top-level call (also a re-entrant one) starts from an empty root frame + scope= kwarg.

Failure is modelled by ModelFail (stands for "some GlomError").
"""
import re

EMPTY = '∅'


class ModelFail(Exception):
    pass


class Frame:
    __slots__ = ('vars', 'parent')

    def __init__(self, parent=None):
        self.vars, self.parent = {}, parent

    def lookup(self, key):
        f = self
        while f is not None:
            if key in f.vars:
                return f.vars[key]
            f = f.parent
        raise KeyError(key)


class MVars:
    """model of a ScopeVars instance"""
    def __init__(self, d):
        self.d = dict(d)


class Model:
    def __init__(self, plain_value, shared=None):
        self.plain = plain_value        # value recipe -> plain python value
        self.shared = shared or []
        self.nested_results = []
        self.steps = 0

    # ------------------------------------------------------------------ entry
    def call(self, target, spec, scope_kw=None):
        root = Frame()
        root.vars['globals'] = MVars({})
        for k, v in (scope_kw or {}).items():
            root.vars[k] = v
        return self.ev(target, spec, root)[0]

    # ------------------------------------------------------------------ eval
    def ev(self, target, r, parent, mode='auto'):
        """-> (value, frame of this evaluation)"""
        self.steps += 1
        if self.steps > 20000:
            raise RuntimeError('model budget')
        f = Frame(parent)
        kind = r[0]
        if kind == 'shared':
            return self.ev(target, self.shared[r[1]], parent, mode)
        if kind == 'Val':
            return self.plain(r[1]), f
        if kind == 'probe':
            if r[2] == 'id':
                return target, f
            if r[2] == 'nested':
                d = r[3]
                try:
                    res = self.call(target, d['spec'])
                except ModelFail:
                    if d.get('handle') == 'swallow':
                        return 'swallowed', f
                    raise
                return res, f
            raise NotImplementedError(r)
        if kind == 'str':
            if mode == 'match':
                raise NotImplementedError('str in match mode')
            return self.path(target, r[1]), f
        if kind == 'T':
            return self.t(target, r, f), f
        if kind in ('tuple', 'Pipe'):
            if kind == 'tuple' and mode == 'match':
                raise NotImplementedError('tuple in match mode')
            cur = target
            frm = f
            for step in r[1]:
                cur, frm = self.ev(cur, step, frm, mode)
            return cur, f
        if kind == 'dict':
            if mode == 'match':
                return self.match_dict(target, r, f), f
            out = {}
            for k, sub in r[1]:
                out[self.plain(k)] = self.ev(target, sub, f, mode)[0]
            return out, f
        if kind == 'list':
            if mode == 'match':
                raise NotImplementedError('list in match mode')
            if not isinstance(target, (list, tuple)):
                raise ModelFail('not iterable')
            return [self.ev(x, r[1][0], f, mode)[0] for x in target], f
        if kind == 'Coalesce':
            o = r[2] if len(r) > 2 and r[2] else {}
            for sub in r[1]:
                try:
                    return self.ev(target, sub, f, mode)[0], f
                except ModelFail:
                    continue
            if 'default' in o:
                return self.plain(o['default']), f
            raise ModelFail('coalesce')
        if kind == 'And':
            res = target
            try:
                for sub in r[1]:
                    res = self.ev(target, sub, f, mode)[0]
                return res, f
            except ModelFail:
                if len(r) > 2 and r[2] and 'default' in r[2]:
                    return self.plain(r[2]['default']), f
                raise
        if kind == 'Or':
            try:
                for sub in r[1][:-1]:
                    try:
                        return self.ev(target, sub, f, mode)[0], f
                    except ModelFail:
                        pass
                return self.ev(target, r[1][-1], f, mode)[0], f
            except ModelFail:
                if len(r) > 2 and r[2] and 'default' in r[2]:
                    return self.plain(r[2]['default']), f
                raise
        if kind == 'Switch':
            for ks, vs in r[1]:
                try:
                    _, kf = self.ev(target, ks, f, mode)
                except ModelFail:
                    continue
                return self.ev(target, vs, kf, mode)[0], f
            if len(r) > 2 and r[2] and 'default' in r[2]:
                return self.plain(r[2]['default']), f
            raise ModelFail('switch')
        if kind == 'Match':
            try:
                return self.ev(target, r[1], f, 'match')[0], f
            except ModelFail:
                if len(r) > 2 and r[2] and 'default' in r[2]:
                    return self.plain(r[2]['default']), f
                raise
        if kind == 'Auto':
            return self.ev(target, r[1], f, 'auto')[0], f
        if kind == 'type':
            if mode != 'match':
                raise NotImplementedError('type outside match')
            ty = {'str': str, 'int': int, 'list': list, 'dict': dict, 'object': object}[r[1]]
            if not isinstance(target, ty) or (ty is int and isinstance(target, bool)):
                raise ModelFail('type')
            return target, f
        if kind == 'M':
            lhs = target
            rhs = self.plain(r[3]) if len(r) > 3 else None
            if r[1] is None:
                ok = bool(target)
            else:
                try:
                    ok = {'==': lambda a, b: a == b, '!=': lambda a, b: a != b,
                          '<': lambda a, b: a < b, '>': lambda a, b: a > b,
                          '<=': lambda a, b: a <= b, '>=': lambda a, b: a >= b}[r[2]](lhs, rhs)
                except TypeError:
                    raise NotImplementedError('incomparable')
            if not ok:
                raise ModelFail('M')
            return target, f
        if kind == 'Regex':
            if not isinstance(target, str):
                raise ModelFail('regex target')
            m = re.fullmatch(r[1], target)
            if not m:
                raise ModelFail('regex')
            f.vars.update(m.groupdict())
            return target, f
        if kind == 'Spec':
            if len(r) > 2 and r[2]:
                for k, v in r[2]:
                    f.vars[k] = self.plain(v)
            return self.ev(target, r[1], f, mode)[0], f
        if kind == 'Ref':
            key = ('Ref', r[1])
            if len(r) > 2 and r[2] is not None:
                f.vars[key] = r[2]
                sub = r[2]
            else:
                try:
                    sub = f.lookup(key)
                except KeyError:
                    raise NotImplementedError('unresolved Ref')
            return self.ev(target, sub, f, mode)[0], f
        if kind == 'Vars':
            d = {k: self.plain(v) for k, v in (r[1] or [])}
            d.update({k: self.plain(v) for k, v in (r[2] if len(r) > 2 else [])})
            return MVars(d), f
        if kind == 'lit':
            if mode != 'match':
                raise NotImplementedError('lit outside match')
            if target != self.plain(r[1]):
                raise ModelFail('lit')
            return target, f
        raise NotImplementedError(r)

    def path(self, target, text):
        cur = target
        for seg in text.split('.'):
            try:
                if isinstance(cur, dict):
                    cur = cur[seg]
                elif isinstance(cur, (list, tuple)):
                    cur = cur[int(seg)]
                else:
                    raise ModelFail('attr')
            except (KeyError, IndexError, ValueError):
                raise ModelFail('path')
        return cur

    def t(self, target, r, f):
        root, ops = r[1], r[2]
        if root == 'T':
            cur = target
            for op, arg in ops:
                if op == '-':
                    cur = cur - self.plain(arg)
                elif op == '+':
                    cur = cur + self.plain(arg)
                elif op == '[':
                    try:
                        cur = cur[self.plain(arg)]
                    except (KeyError, IndexError, TypeError):
                        raise ModelFail('T[]')
                else:
                    raise NotImplementedError(op)
            return cur
        if root == 'S':
            if ops and ops[0][0] == '(':
                kwargs = ops[0][1][1]
                new = {}
                for k, v in kwargs.items():
                    if isinstance(v, dict) and v.get('t') == 'spec':
                        new[k] = self.ev(target, v['v'], f)[0]
                    else:
                        new[k] = self.plain(v)
                f.vars.update(new)
                return target
            # reader: S.k / S['k'] / S.globals.k / S.v.k
            op0, name = ops[0]
            try:
                cur = f.lookup(name)
            except KeyError:
                raise ModelFail('unbound')
            for op, arg in ops[1:]:
                if isinstance(cur, MVars):
                    if arg in cur.d:
                        cur = cur.d[arg]
                    else:
                        raise ModelFail('no attr')
                elif isinstance(cur, dict) and op == '[':
                    try:
                        cur = cur[arg]
                    except KeyError:
                        raise ModelFail('key')
                else:
                    raise NotImplementedError(('S-op', op, type(cur)))
            return cur
        if root == 'A':
            if len(ops) == 1:
                f.vars[ops[0][1]] = target
                return target
            name = ops[0][1]
            try:
                cur = f.lookup(name)
            except KeyError:
                raise ModelFail('unbound A base')
            for op, arg in ops[1:-1]:
                raise NotImplementedError('deep A')
            if isinstance(cur, MVars):
                cur.d[ops[-1][1]] = target
                return target
            if isinstance(cur, dict) and ops[-1][0] == '[':
                cur[ops[-1][1]] = target        # A.name[key]: item assignment on the bound object
                return target
            raise NotImplementedError('A on non-vars')
        raise NotImplementedError(root)

    def match_dict(self, target, r, f):
        if not isinstance(target, dict):
            raise ModelFail('not dict')
        result = {}
        pairs = r[1]
        required = set()
        for i, (ks, vs) in enumerate(pairs):
            if not (isinstance(ks, dict) and ks.get('t') == 'spec'):
                required.add(i)      # equality keys are required
        for key, val in target.items():
            for i, (ks, vs) in enumerate(pairs):
                try:
                    if isinstance(ks, dict) and ks.get('t') == 'spec':
                        k2, kf = self.ev(key, ks['v'], f, 'match')
                    else:
                        if key != self.plain(ks):
                            raise ModelFail('key')
                        k2, kf = key, Frame(f)
                except ModelFail:
                    continue
                result[k2] = self.ev(val, vs, kf, 'match')[0]
                required.discard(i)
                break
            else:
                raise ModelFail('no key matched')
        if required:
            raise ModelFail('required')
        return result
