"""Reference composition for Iter pipelines (C17): itertools + boltons, stages applied in the order
of the builder calls.  boltons' chunked/windowed/split/unique are part of the trusted reference:
the statement names those stages without defining them and boltons is their definition; glom's
wiring of them is what is checked."""
from itertools import islice, takewhile, dropwhile, chain

from boltons.iterutils import chunked_iter, windowed_iter, split_iter, unique_iter

SKIP, STOP = 'SKIP', 'STOP'      # model-side markers

PYFUNCS = {
    'inc': lambda x: x + 1,
    'double': lambda x: x * 2,
    'mod3': lambda x: x % 3,
    'neg': lambda x: -x,
    'is_even': lambda x: x % 2 == 0,
    'is_odd': lambda x: x % 2 == 1,
    'gt1': lambda x: x > 1,
    'lt3': lambda x: x < 3,
    'lt6': lambda x: x < 6,
    'truthy': lambda x: bool(x),
    'ident': lambda x: x,
    'len': len,
    'sum': sum,
    'list': list,
    'first_or0': lambda x: (x[0] if len(x) else 0),
    'nonempty': lambda x: len(x) > 0,
    'len_lt2': lambda x: len(x) < 2,
    'tupled': lambda x: tuple(x),
    # base subspecs producing control values
    'skip_odd': lambda x: SKIP if x % 2 else x,
    'stop_ge5': lambda x: STOP if x >= 5 else x,
    'sent_eq3': lambda x: -1 if x == 3 else x,
    'skip3_stop7': lambda x: SKIP if x == 3 else (STOP if x == 7 else x),
}


SPAWN = {'pulled': 0}
SPAWN_CAP = 300          # an "unbounded" sub-stream gives up after this many items (RuntimeError = budget)


def spawn(x):
    """int -> a LAZY, counted sub-iterable (three items; unbounded for 9): what flatten() is fed when the
    elements of a stream are themselves streams.  Every item handed out is counted in SPAWN"""
    def gen():
        n = 0
        while x == 9 or n < 3:
            SPAWN['pulled'] += 1
            if n >= SPAWN_CAP:
                raise RuntimeError('reference budget')
            yield x * 10 + n % 10
            n += 1
    return gen()


PYFUNCS['spawn'] = spawn


def fail3(x):
    """a stage function that fails on one element (3) and is fine with the others: a consumer that
    catches the error and goes on pulling must get the rest of the stream"""
    if x == 3:
        raise ValueError('three')
    return x


PYFUNCS['fail3'] = fail3
PYFUNCS['tostr'] = lambda x: f's{x}'


def base_iter(source, sub, sentinel):
    f = PYFUNCS[sub] if sub else None
    for t in source:
        y = f(t) if f else t
        if y == SKIP and isinstance(y, str):
            continue
        if (isinstance(y, str) and y == STOP) or (sentinel is not None and y == sentinel and type(y) is type(sentinel)):
            return
        yield y


def apply_stage(it, st):
    name, args = st[0], st[1:]
    if name == 'map':
        return map(PYFUNCS[args[0]], it)
    if name == 'filter':
        f = PYFUNCS[args[0]] if args and args[0] else (lambda x: x)
        return filter(lambda t: bool(f(t)), it)
    if name == 'slice':
        return islice(it, *args)
    if name == 'limit':
        return islice(it, args[0])
    if name == 'takewhile':
        f = PYFUNCS[args[0]] if args and args[0] else (lambda x: x)
        return takewhile(f, it)
    if name == 'dropwhile':
        f = PYFUNCS[args[0]] if args and args[0] else (lambda x: x)
        return dropwhile(f, it)
    if name == 'chunked':
        if len(args) > 1:
            return chunked_iter(it, size=args[0], fill=args[1])
        return chunked_iter(it, size=args[0])
    if name == 'windowed':
        return windowed_iter(it, args[0])
    if name == 'split':
        kw = {}
        if len(args) > 0 and args[0] is not None:
            kw['sep'] = args[0]
        if len(args) > 1 and args[1] is not None:
            kw['maxsplit'] = args[1]
        return split_iter(it, **kw)
    if name == 'flatten':
        return chain.from_iterable(it)
    if name == 'unique':
        f = PYFUNCS[args[0]] if args and args[0] else (lambda x: x)
        return unique_iter(it, key=f)
    raise ValueError(name)


class Counting:
    def __init__(self, items, inf=False, limit=100000):
        self.items, self.inf, self.pulled, self.limit = list(items), inf, 0, limit

    def __iter__(self):
        return self._gen()

    def _gen(self):
        if not self.inf:
            for x in self.items:
                self.pulled += 1
                yield x
            return
        n = 0
        while True:
            for x in self.items:
                self.pulled += 1
                if self.pulled > self.limit:
                    raise RuntimeError('reference budget')
                yield x
            n += 1
            if not self.items:
                self.pulled += 1
                if self.pulled > self.limit:
                    raise RuntimeError('reference budget')
                yield n


def pipeline(source, sub, sentinel, stages):
    it = base_iter(source, sub, sentinel)
    for st in stages:
        it = apply_stage(it, st)
    return iter(it)


def first(it, key, default):
    f = PYFUNCS[key] if key else (lambda x: x)
    for x in it:
        if f(x):
            return x
    return default


def invoke_model(ops, evalspec):
    """ops = [[kind, args, kwargs]...]; evalspec(spec recipe) -> value.  -> (args list, kwargs dict)"""
    latest = {}
    for i, (kind, a, kw) in enumerate(ops):
        if kind in ('C', 'S'):
            for k in (kw or {}):
                latest[k] = i
    all_args, all_kwargs = [], {}
    for i, (kind, a, kw) in enumerate(ops):
        if kind == 'C':
            all_args.extend(a)
            all_kwargs.update({k: v for k, v in (kw or {}).items() if latest[k] == i})
        elif kind == 'S':
            all_args.extend(evalspec(x) for x in a)
            all_kwargs.update({k: evalspec(v) for k, v in (kw or {}).items() if latest[k] == i})
        else:
            if a is not None:
                all_args.extend(evalspec(a))
            if kw is not None:
                all_kwargs.update(evalspec(kw))
    return all_args, all_kwargs
