"""Reference model for C05: evaluation order / who-catches-what for a small spec grammar, a
structural parser of glom's target-spec trace, and the existential embedding check.

Grammar (auto mode): 'str' paths, T[..] chains, Val, identity probes (fault points), dict, list,
tuple, Pipe, Coalesce(+default), Or(+default), And, Switch(+default).  The model consumes the same
keyed fault plan as the real run ({"<task>:p<pid>#<nth>": {'cls': ...}}) and yields the failure
record: root target; the chain of (spec, target received) from the root spec down to the innermost
failing spec, following the branch that really raised; for every branching ancestor the failed
attempted branches in order with the error that ended each; the original error.

The check is an *embedding*, not a re-rendering: exact text, widths and glyphs beyond the documented
ones are not compared.  Renderings that are consequences of _unpack_stack and NOT violations:
a branching spec with exactly one attempted branch is printed inline; a nested combinator's own
error is printed under its Spec line; Target lines only when the target changes by identity; every
branch block restarts from the branching spec's target.
"""
import re


class MErr(Exception):
    """model-side failure: .etype name, .marker (substring that must show up in the rendered error),
    .glom (is it a GlomError => absorbable), .path [(node, target)], .branches {id(node): [...]}"""

    def __init__(self, etype, marker, is_glom, node, target):
        super().__init__(etype, marker)
        self.etype, self.marker, self.is_glom = etype, marker, is_glom
        self.path = [(node, target)]
        self.branches = {}
        self.inline_ok = {}      # id(node) -> may a single failed branch be rendered inline?


class Node:
    __slots__ = ('kind', 'recipe', 'obj', 'children', 'extra')

    def __init__(self, kind, recipe, obj, children=(), extra=None):
        self.kind, self.recipe, self.obj, self.children, self.extra = kind, recipe, obj, list(children), extra


GLOM_FAULTS = ('UGlomErr', 'UGlomErrInit', 'UGlomMixed', 'UGlomArity', 'UGlomKwOnly', 'UGlomRewrite', 'UGlomLookup',
               'UGlomMultiline')


def build(G, B, r):
    """recipe -> Node tree holding the REAL spec objects (node.obj) for repr"""
    k = r[0]
    if k == 'str':
        return Node('str', r, r[1])
    if k == 'T':
        return Node('T', r, B.t_expr(r[1], r[2]))
    if k == 'Val':
        return Node('Val', r, G.Val(B.value(r[1])))
    if k == 'fn':
        return Node('fn', r, B.func(r[1]))
    if k == 'probe':
        return Node('probe', r, B.probe(*r[1:]))
    if k == 'dict':
        # a key may be computed: {'t': 'spec', 'v': <T recipe>}; glom evaluates the value first, then
        # the key (children = value nodes; extra = literal key | key Node)
        ch = [build(G, B, v) for _, v in r[1]]
        keys = [build(G, B, kk['v']) if isinstance(kk, dict) else kk for kk, _ in r[1]]
        obj = {}
        for kk, c in zip(keys, ch):
            obj[kk.obj if isinstance(kk, Node) else kk] = c.obj
        return Node('dict', r, obj, ch, extra=keys)
    if k == 'list':
        c = build(G, B, r[1][0])
        return Node('list', r, [c.obj], [c])
    if k in ('tuple', 'Pipe'):
        ch = [build(G, B, x) for x in r[1]]
        obj = tuple(c.obj for c in ch) if k == 'tuple' else G.Pipe(*[c.obj for c in ch])
        return Node(k, r, obj, ch)
    if k == 'Coalesce':
        ch = [build(G, B, x) for x in r[1]]
        o = r[2] if len(r) > 2 and r[2] else {}
        kw = {}
        if 'default' in o:
            kw['default'] = B.value(o['default'])
        if 'skip' in o:
            kw['skip'] = B.value(o['skip'])
        return Node('Coalesce', r, G.Coalesce(*[c.obj for c in ch], **kw), ch, extra=o)
    if k in ('Or', 'And'):
        ch = [build(G, B, x) for x in r[1]]
        o = r[2] if len(r) > 2 and r[2] else {}
        kw = {}
        if 'default' in o:
            kw['default'] = B.value(o['default'])
        return Node(k, r, getattr(G, k)(*[c.obj for c in ch], **kw), ch, extra=o)
    if k == 'SpecWrap':
        # Spec(<sub>): a spec level of its own; it also keeps what <sub> does to the mode from
        # reaching the later steps of an enclosing tuple (glom chains a tuple's steps through the
        # scope of the previous step, and Match() switches the mode in its scope)
        c = build(G, B, r[1])
        return Node('SpecWrap', r, G.Spec(c.obj), [c])
    if k == 'type':
        import builtins
        return Node('type', r, getattr(builtins, r[1]))
    if k == 'MatchOf':
        # Match(<sub>): the sub-spec is evaluated in match mode (types are isinstance tests)
        c = build(G, B, r[1])
        return Node('MatchOf', r, G.Match(c.obj), [c])
    if k == 'MatchLit':
        # Match(<literal>): fails with MatchError unless the target equals the literal
        return Node('MatchLit', r, G.Match(r[1]), [Node('lit', r, r[1])], extra=r[1])
    if k == 'Check':
        c = build(G, B, r[1])
        return Node('Check', r, G.Check(c.obj, equal_to=r[2]['equal_to']), [c], extra=r[2])
    if k == 'Switch':
        ch = []
        cases = []
        for ks, vs in r[1]:
            a, b = build(G, B, ks), build(G, B, vs)
            ch.extend([a, b])
            cases.append((a.obj, b.obj))
        o = r[2] if len(r) > 2 and r[2] else {}
        kw = {}
        if 'default' in o:
            kw['default'] = B.value(o['default'])
        return Node('Switch', r, G.Switch(cases, **kw), ch, extra=o)
    raise NotImplementedError(k)


class Walker:
    def __init__(self, faults, task=0):
        self.faults = faults or {}
        self.task = task
        self.counts = {}

    def run(self, node, target):
        """-> ('ok', value) | ('err', MErr)"""
        try:
            return ('ok', self.ev(node, target))
        except MErr as e:
            return ('err', e)

    def ev(self, n, t):
        try:
            return self._ev(n, t)
        except MErr as e:
            if e.path[0][0] is not n:
                e.path.insert(0, (n, t))
            raise

    def _access(self, n, cur, key, t):
        try:
            if isinstance(cur, dict):
                return cur[key]
            if isinstance(cur, (list, tuple)):
                return cur[int(key)]
        except (KeyError, IndexError, ValueError, TypeError):
            pass
        raise MErr('PathAccessError', repr(key), True, n, t)

    def _ev(self, n, t):
        k = n.kind
        if k == 'str':
            cur = t
            for seg in n.recipe[1].split('.'):
                cur = self._access(n, cur, seg, t)
            return cur
        if k == 'T':
            if n.recipe[1] == 'S':
                # scope readers of a name nobody bound: always a PathAccessError at the first segment
                raise MErr('PathAccessError', repr(n.recipe[2][0][1]), True, n, t)
            cur = t
            for op, arg in n.recipe[2]:
                if op != '[':
                    raise NotImplementedError(op)
                try:
                    cur = cur[arg]
                except (KeyError, IndexError, TypeError):
                    raise MErr('PathAccessError', repr(arg), True, n, t)
            return cur
        if k == 'Val':
            return n.recipe[1]
        if k == 'fn':
            # pure conversions to an EQUAL but distinct object: the trace must show what the next spec
            # really received (1.0, not 1)
            f = {'float': float, 'ident': lambda x: x}[n.recipe[1]]
            if not isinstance(t, (int, float)) or isinstance(t, bool):
                raise NotImplementedError('fn on non-number')
            return f(t)
        if k == 'probe':
            pid = n.recipe[1]
            nth = self.counts.get(pid, 0)
            self.counts[pid] = nth + 1
            key = f'{self.task}:p{pid}#{nth}'
            f = self.faults.get(key)
            if f is not None:
                raise MErr(f['cls'], 'inj:' + key, f['cls'] in GLOM_FAULTS, n, t)
            return t
        if k == 'dict':
            out = {}
            for kk, c in zip(n.extra, n.children):
                v = self.ev(c, t)
                if isinstance(kk, Node):
                    kk = self.ev(kk, t)
                    try:
                        hash(kk)
                    except TypeError:
                        raise NotImplementedError('unhashable computed key')
                out[kk] = v
            return out
        if k == 'list':
            if not isinstance(t, (list, tuple)):
                raise NotImplementedError('list spec on non-list')
            return [self.ev(n.children[0], x) for x in t]
        if k in ('tuple', 'Pipe'):
            cur = t
            for c in n.children:
                cur = self.ev(c, cur)
            return cur
        if k == 'Coalesce':
            failed = []
            last_failed = False
            for c in n.children:
                try:
                    v = self.ev(c, t)
                    if 'skip' in n.extra and v == n.extra['skip']:
                        last_failed = False     # a skipped VALUE: evaluated, not failed, try the next one
                        continue
                    return v
                except MErr as e:
                    if not e.is_glom:
                        if failed:
                            e.branches[id(n)] = failed
                        raise
                    failed.append((c, e))
                    last_failed = True
            if 'default' in n.extra:
                return n.extra['default']
            err = MErr('CoalesceError', 'no valid values found', True, n, t)
            err.branches[id(n)] = failed
            err.inline_ok[id(n)] = last_failed
            raise err
        if k == 'Or':
            failed = []
            try:
                for c in n.children[:-1]:
                    try:
                        return self.ev(c, t)
                    except MErr as e:
                        if not e.is_glom:
                            if failed:
                                e.branches[id(n)] = failed
                            raise
                        failed.append((c, e))
                try:
                    return self.ev(n.children[-1], t)
                except MErr as e:
                    if failed:
                        e.branches[id(n)] = failed
                    raise
            except MErr as e:
                if e.is_glom and 'default' in n.extra:
                    return n.extra['default']
                raise
        if k == 'And':
            res = t
            try:
                for c in n.children:
                    res = self.ev(c, t)
                return res
            except MErr as e:
                if e.is_glom and 'default' in n.extra:
                    return n.extra['default']
                raise
        if k == 'Check':
            v = self.ev(n.children[0], t)
            if v != n.extra['equal_to']:
                # the Check itself fails, AFTER its sub-spec was evaluated successfully
                raise MErr('CheckError', 'failed check', True, n, t)
            return t
        if k == 'SpecWrap':
            return self.ev(n.children[0], t)
        if k == 'type':
            if not isinstance(t, n.obj):
                raise MErr('TypeMatchError', 'expected type', True, n, t)
            return t
        if k == 'MatchOf':
            return self.ev(n.children[0], t)
        if k == 'MatchLit':
            return self.ev(n.children[0], t)      # (the literal is a spec level of its own, in match mode)
        if k == 'lit':
            if t != n.obj:
                raise MErr('MatchError', 'does not match', True, n, t)
            return t
        if k == 'Switch':
            failed = []
            pairs = list(zip(n.children[0::2], n.children[1::2]))
            for kc, vc in pairs:
                try:
                    self.ev(kc, t)
                except MErr as e:
                    if not e.is_glom:
                        if failed:
                            e.branches[id(n)] = failed
                        raise
                    failed.append((kc, e))
                    continue
                try:
                    return self.ev(vc, t)
                except MErr as e:
                    # the value spec is chained below the matched key spec
                    if e.path[0][0] is vc:
                        e.path.insert(0, (kc, t))
                    if failed:
                        e.branches[id(n)] = failed
                    raise
            if 'default' in n.extra:
                return n.extra['default']
            err = MErr('MatchError', 'no matches for target in Switch', True, n, t)
            err.branches[id(n)] = failed
            raise err
        raise NotImplementedError(k)


# ------------------------------------------------------------------------------------ parser

_LINE = re.compile(r'^ ([|\\X+\-]+) (.*)$')


class Entry:
    __slots__ = ('typ', 'text', 'tick', 'blocks')

    def __init__(self, typ, text, tick):
        self.typ, self.text, self.tick, self.blocks = typ, text, tick, []

    def __repr__(self):
        return f'{self.typ}{self.tick}:{self.text[:40]}' + (f'+{len(self.blocks)}' if self.blocks else '')


def parse_trace(message):
    """-> (root block (list of Entry), tail lines) or raises ValueError"""
    lines = message.split('\n')
    try:
        i = next(i for i, l in enumerate(lines) if 'Target-spec trace' in l)
    except StopIteration:
        raise ValueError('no trace header')
    body = []
    j = i + 1
    while j < len(lines):
        m = _LINE.match(lines[j])
        if not m:
            if body and not body[-1][2].startswith(('Target: ', 'Spec: ')) and not lines[j].strip(' ^~') \
                    and j + 1 < len(lines):
                # blank / pointer-only line inside a multi-line error message
                d_, t_, txt_ = body[-1]
                body[-1] = (d_, t_, txt_ + '\n' + lines[j])
                j += 1
                continue
            if lines[j].startswith('>>') and body:
                # continuation of a multi-line error message (only the first line carries the gutter)
                d_, t_, txt_ = body[-1]
                body[-1] = (d_, t_, txt_ + '\n' + lines[j])
                j += 1
                continue
            break
        body.append((len(m.group(1)) - 1, m.group(1)[-1], m.group(2)))
        j += 1
    tail = lines[j:]
    root = []
    stack = [root]                 # stack[d] = current block at depth d
    last_branch_entry = {}         # depth -> the '+' Spec entry that owns deeper blocks
    for depth, tick, text in body:
        if text.startswith('Target: '):
            typ, txt = 'T', text[len('Target: '):]
        elif text.startswith('Spec: '):
            typ, txt = 'S', text[len('Spec: '):]
        else:
            typ, txt = 'E', text
        e = Entry(typ, txt, tick)
        if depth > len(stack) - 1:
            # a deeper block starts: it belongs to the last '+' Spec entry of the shallower block
            owner = last_branch_entry.get(depth - 1)
            if owner is None or depth != len(stack):
                raise ValueError(f'block at depth {depth} without a branching spec line')
            blk = []
            owner.blocks.append(blk)
            stack.append(blk)
        else:
            while len(stack) - 1 > depth:
                stack.pop()
            if tick == '\\' and depth > 0:
                owner = last_branch_entry.get(depth - 1)
                if owner is None:
                    raise ValueError('branch block without owner')
                blk = []
                owner.blocks.append(blk)
                stack[depth] = blk
        stack[depth].append(e)
        if typ == 'S':
            # (the '+' of a branching spec is overwritten by '\\' / 'X' when it is the first / last line
            # of its block, so ownership of deeper blocks goes to the latest Spec line one level up)
            last_branch_entry[depth] = e
    return root, tail


def _matches(shown, expected):
    """a rendered (maybe truncated) value vs the full expected repr"""
    shown = shown.rstrip()
    m = re.match(r'^(.*?)\.\.\.( \(len=\d+\))?$', shown, re.S)
    if m and len(m.group(1)) < len(expected):
        return expected.startswith(m.group(1))
    return shown == expected


def embed(root, record, fmt):
    """does the model's failure record embed in the parsed trace?  -> list of problems (empty = ok)

    record = {'root_target', 'path': [(spec_repr, target_repr, node_id)], 'branches': {node_id: [(spec_repr, etype, marker)]},
              'etype', 'marker'}
    """
    problems = []
    if not root or root[0].typ != 'T' or not _matches(root[0].text, record['root_target']):
        problems.append(['first-line-not-root-target', root[0].text if root else None, record['root_target']])
        return problems
    # "long (truncated)" reprs: cutting a value must buy room -- a cut rendering that is as long as the
    # full repr shows less in the same space (checked on the first line only: it is always the root
    # target, so the expected repr is not a guess)
    t0 = root[0].text.rstrip()
    m0 = re.match(r'^(.*?)\.\.\.( \(len=\d+\))?$', t0, re.S)
    exp0 = record['root_target']
    if m0 and len(t0) >= len(exp0) and '0x' not in exp0 and '0x' not in t0:
        problems.append(['truncated-although-it-fits', t0, exp0])
        return problems
    path = record['path']

    def search(block, bi, pi, gov):
        """try to place path[pi:] starting at block[bi:] with governing target gov; -> problems list or None (=placed)"""
        i = bi
        while i < len(block):
            e = block[i]
            if e.typ == 'T':
                gov = e.text
            elif e.typ == 'S' and pi < len(path) and _matches(e.text, path[pi][0]) and _matches(gov, path[pi][1]):
                # candidate placement of path[pi] here
                r = place(block, i, pi, gov)
                if r is None:
                    return None
            i += 1
        return ['path-element-not-found', pi, path[pi][0] if pi < len(path) else None]

    def place(block, i, pi, gov):
        e = block[i]
        nid = path[pi][2]
        failed = record['branches'].get(nid, [])
        last = pi == len(path) - 1
        # ---- branches of this ancestor
        if failed:
            attempted = len(failed) + (0 if last else 1)
            inline = attempted == 1 and record.get('inline_ok', {}).get(nid, True)
            if inline:
                # inline rendering: the single failed branch follows in the same block, with its error
                bs, etype, marker = failed[0]
                tail_ = block[i + 1:]
                if not any(x.typ == 'S' and _matches(x.text, bs) for x in tail_) or \
                        not _block_has_error(tail_, etype, marker):
                    return ['inline-branch-missing', bs, etype]
            else:
                if len(e.blocks) != attempted:
                    return ['branch-count', path[pi][0], attempted, len(e.blocks)]
                for (bs, etype, marker), blk in zip(failed, e.blocks):
                    if not blk or blk[0].typ not in ('S', 'T'):
                        return ['branch-block-empty', bs]
                    first_s = next((x for x in blk if x.typ == 'S'), None)
                    if first_s is None or not _matches(first_s.text, bs):
                        return ['branch-spec-mismatch', bs, first_s.text if first_s else None]
                    if not _block_has_error(blk, etype, marker):
                        return ['branch-error-missing', bs, etype, marker]
        if last:
            # innermost failing spec: nothing but error lines (and, for a branching spec, its blocks) may follow
            rest = [x for x in block[i + 1:] if x.typ == 'S']
            if failed and inline and not e.blocks:
                # inline single branch: its Spec lines legitimately follow
                return None
            if rest:
                return ['spec-lines-after-innermost', path[pi][0], [x.text for x in rest][:3]]
            return None
        # ---- continue with path[pi+1]: in the same block (linear) or inside one of the branch blocks
        nxt = search(block, i + 1, pi + 1, gov)
        if nxt is None:
            return None
        for blk in e.blocks[len(failed):] or e.blocks:
            r = search(blk, 0, pi + 1, gov)
            if r is None:
                return None
        return nxt

    r = search(root, 0, 0, None)
    if r is not None:
        problems.append(r)
    return problems


def _block_has_error(blk, etype, marker):
    for x in blk:
        if x.typ == 'E' and etype in x.text and (marker is None or marker in x.text):
            if etype == 'UGlomMultiline' and '>>second line' not in x.text:
                continue
            return True
        for b in x.blocks:
            if _block_has_error(b, etype, marker):
                return True
    return False


def order_problems(block):
    """'lists in evaluation order … and the error that ended it': an error is reported once, where it
    was first observed.  The same error line twice in one block means it is also shown at a level
    *before* the steps that led to it.  (A combinator's OWN error directly under its Spec line, followed
    by an inline branch, is a different error text and is fine.)"""
    out = []
    seen = {}
    for e in block:
        if e.typ == 'E':
            if e.text in seen:
                out.append(['duplicate-error-line', e.text[:100]])
                break
            seen[e.text] = True
        for b in e.blocks:
            out.extend(order_problems(b))
    return out


def all_spec_texts(block, out=None):
    out = [] if out is None else out
    for e in block:
        if e.typ == 'S':
            out.append(e.text)
        for b in e.blocks:
            all_spec_texts(b, out)
    return out
