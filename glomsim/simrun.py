"""Shared helpers for checks: instances with knobs, the set-order seam, call thunks."""
import hashlib
import json
import random

from . import loader, kernel, catalogue, build, canon


def jhash(x):
    return hashlib.sha1(json.dumps(x, sort_keys=True, default=str).encode()).hexdigest()[:16]


def make_set_factory(perm):
    """a ``set`` subclass whose iteration order is a deterministic function of *perm*.

    glom.core's register_op iterates a set of type objects (hash = address) to build the
    per-operation type tree, so shipped behaviour depends on an order nobody chose.  The simulator
    owns that order: elements are iterated sorted by sha1(perm, qualified name / repr)."""
    def skey(x):
        if isinstance(x, type):
            name = f'{x.__module__}.{x.__qualname__}'
        else:
            name = repr(x)
        return hashlib.sha1(f'{perm}:{name}'.encode()).digest()

    class PermSet(set):
        __slots__ = ()

        def __iter__(self):
            return iter(sorted(set.__iter__(self), key=skey))

        def __or__(self, other):
            return PermSet(set.__or__(self, other))
    PermSet.__name__ = 'set'
    return PermSet


DEFAULT_KNOBS = {'max_cache': 10000, 'path_star': True, 'trace_width': 78, 'set_perm': 0,
                 'glom_debug_env': False}


def draw_knobs(rng, thorough=False):
    return {
        'max_cache': rng.choice([0, 1, 2, 7, 10000, 10000]),
        'path_star': rng.random() < 0.85,
        'trace_width': rng.choice([50, 60, 78, 78, 90, 108]),
        'set_perm': rng.randint(0, 11),
        'glom_debug_env': False,
    }


def make_instance(knobs=None, src=None, extra=()):
    kn = dict(DEFAULT_KNOBS)
    kn.update(knobs or {})
    G = loader.load(src=src, glom_debug=kn['glom_debug_env'], trace_width=kn['trace_width'],
                    set_factory=make_set_factory(kn['set_perm']), extra=extra)
    loader.apply_knobs(G, max_cache=kn['max_cache'], path_star=kn['path_star'])
    return G


def make_kernel(G, **kw):
    k = kernel.Kernel(cat=catalogue.Catalogue(G), trace_dir=G.src_dir, shim=getattr(G, 'sim_threading', None), **kw)
    return k


def call_thunk(G, B, call):
    """call = {'target': value recipe, 'spec': spec recipe, 'kw': {...}} -> (thunk, target, spec)"""
    target = B.value(call['target'])
    spec = B.spec(call['spec'])
    kw = {}
    o = call.get('kw') or {}
    if 'default' in o:
        kw['default'] = B.value(o['default'])
    if 'skip_exc' in o:
        kw['skip_exc'] = B.exc_classes(o['skip_exc'])
    if 'scope' in o:
        kw['scope'] = {kk: B.value(vv) for kk, vv in o['scope']}
    if o.get('glom_debug'):
        kw['glom_debug'] = True
    fn = G.glom
    if o.get('api') == 'spec.glom':
        sp = G.Spec(spec)
        return (lambda: sp.glom(target, **kw)), target, spec, kw
    return (lambda: fn(target, spec, **kw)), target, spec, kw


def consume(v, limit=200):
    """materialise lazy results (generators/iterators) so that outcomes are comparable"""
    import types
    import itertools
    if isinstance(v, (types.GeneratorType, itertools.chain, map, filter, itertools.islice,
                      itertools.takewhile, itertools.dropwhile)) or type(v).__name__ in (
                          'list_iterator', 'tuple_iterator', 'dict_keyiterator', '_SimIterator',
                          'list_reverseiterator', 'enumerate', 'zip', 'range_iterator'):
        out = []
        for i, x in enumerate(v):
            if i >= limit:
                out.append('…')
                break
            out.append(x)
        return ['lazy', out]
    return v
