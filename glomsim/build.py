"""Recipes -> live objects.

Workloads are JSON-able *recipes*, not objects, because class identity differs between private
glom instances and because replay files, the minimiser and the reference runs exchange them.

Value recipes (targets, literals, arguments)
    scalars                         int / float / str / bool / None as themselves
    {"t": kind, "n": nid, "v": …}   containers and objects; "n" (optional) names the node so
                                    that {"t": "ref", "n": nid} can share it or close a cycle
    {"t": "spec", "v": <spec>}      a spec object embedded in a value (argument mode)
    {"t": "exc", "v": name}         an exception *class* from the catalogue
Spec recipes are lists ``[kind, …]`` (see Builder.spec).
"""
import operator
from collections import OrderedDict

from . import collab

FUNCS = {
    'len': len, 'int': int, 'str': str, 'list': list, 'tuple': tuple, 'dict': dict, 'set': set,
    'sorted': sorted, 'sum': sum, 'abs': abs, 'bool': bool, 'float': float, 'repr': repr,
    'max': max, 'min': min, 'iter': iter, 'type': type, 'frozenset': frozenset,
    'reversed': reversed, 'enumerate': enumerate, 'object': object, 'OrderedDict': OrderedDict,
    'iadd': operator.iadd, 'add': operator.add, 'mul': operator.mul, 'or_': operator.or_,
    'getitem': operator.getitem, 'getattr': getattr, 'setattr': setattr, 'isinstance': isinstance,
    'range': range, 'zip': zip, 'round': round, 'setitem': operator.setitem, 'eq': operator.eq,
    'delitem': operator.delitem, 'delattr': delattr,
}


class NamedFn:
    """a callable with an address-free repr (function reprs carry 0x... addresses, which glom's
    trace formatter may truncate in the middle)"""
    __slots__ = ('f', '__name__')

    def __init__(self, name, f):
        self.f, self.__name__ = f, name

    def __call__(self, *a, **kw):
        return self.f(*a, **kw)

    def __repr__(self):
        return f'<fn {self.__name__}>'


def _named(name):
    def deco(f):
        return NamedFn(name, f)
    return deco


LAMBDAS = {
    'inc': _named('inc')(lambda x: x + 1),
    'double': _named('double')(lambda x: x * 2),
    'neg': _named('neg')(lambda x: -x),
    'is_even': _named('is_even')(lambda x: x % 2 == 0),
    'is_odd': _named('is_odd')(lambda x: x % 2 == 1),
    'mod2': _named('mod2')(lambda x: x % 2),
    'mod3': _named('mod3')(lambda x: x % 3),
    'lt3': _named('lt3')(lambda x: x < 3),
    'gt1': _named('gt1')(lambda x: x > 1),
    'truthy': _named('truthy')(lambda x: bool(x)),
    'is_int': _named('is_int')(lambda x: isinstance(x, int)),
    'ident': _named('ident')(lambda x: x),
    'first': _named('first')(lambda x: x[0]),
    'wrap': _named('wrap')(lambda x: [x]),
    'pair': _named('pair')(lambda x: (x, x)),
    'tostr': _named('tostr')(lambda x: f's{x}'),
    'fail_div': _named('fail_div')(lambda x: 1 // 0),
    'fail_val': _named('fail_val')(lambda x: int('zz')),
    'objfactory': _named('objfactory')(lambda: collab.Obj()),
    'acc_or': _named('acc_or')(lambda a, b: a | b),
    'acc_max': _named('acc_max')(lambda a, b: a if a >= b else b),
    'acc_cat': _named('acc_cat')(lambda a, b: a + [b]),
    'acc_cnt': _named('acc_cnt')(lambda a, b: a + 1),
    'lt6': _named('lt6')(lambda x: x < 6),
    'first_or0': _named('first_or0')(lambda x: (x[0] if len(x) else 0)),
    'nonempty': _named('nonempty')(lambda x: len(x) > 0),
    'len_lt2': _named('len_lt2')(lambda x: len(x) < 2),
    'tupled': _named('tupled')(lambda x: tuple(x)),
    'argpack': _named('argpack')(lambda *a, **kw: (a, tuple(sorted(kw.items())))),
    # in-place merge ops that ALSO return something (Merge ignores what its op returns)
    'absorb': _named('absorb')(lambda acc, v: (acc.update(v), v)[1]),
    'first_wins': _named('first_wins')(lambda acc, v: [acc.setdefault(k, x) for k, x in v.items()]),
}

TYPES = {'int': int, 'str': str, 'list': list, 'dict': dict, 'tuple': tuple, 'float': float,
         'bool': bool, 'object': object, 'set': set, 'frozenset': frozenset, 'NoneType': type(None),
         'bytes': bytes, 'OrderedDict': OrderedDict}


class Builder:
    def __init__(self, G, k, shared=None, on_nested=None, eager_render=True, nested_stub=None):
        self.G, self.k = G, k
        self.arg_literals = {}    # id(list/dict passed in argument position) -> description
        self.nodes = {}
        self.keep = []
        self.idmap = {}
        self.probes = {}
        self.shared_recipes = shared or []
        self.shared_objs = {}
        self.on_nested = on_nested
        self.eager_render = eager_render    # render (str()) an inner error as soon as it is caught?
        self.nested_stub = nested_stub      # {(pid, nth): value}: do not re-enter glom, return the recorded result
        self._sid = 0
        self.custom_classes = {}

    # ------------------------------------------------------------------ values
    def _reg(self, r, obj):
        n = r.get('n')
        if n is not None:
            # every labelled object stays alive as long as the builder: a freed node's id() could be
            # reused by an unrelated result object, which would then carry the dead node's label
            self.keep.append(obj)
            self.nodes[n] = obj
            if not (isinstance(obj, (tuple, frozenset)) and not obj):
                # (the empty tuple / frozenset are interpreter-wide singletons: no identity label)
                self.idmap[id(obj)] = f'n{n}'
        return obj

    def _sim_id(self, r):
        n = r.get('n')
        if n is not None:
            return f'o{n}'
        self._sid += 1
        return f'a{self._sid}'

    def value(self, r):
        G = self.G
        if not isinstance(r, dict):
            if isinstance(r, list):     # convenience: a bare JSON list is a list literal
                return [self.value(x) for x in r]
            return r
        t = r['t']
        v = r.get('v')
        if t == 'ref':
            return self.nodes[r['n']]
        if t == 'spec':
            return self.spec(v)
        if t == 'exc':
            return self.k.cat.cls(v)
        if t == 'fn':
            return self.func(v)
        if t in ('dict', 'odict', 'mydict', 'slotdict', 'simdict'):
            cls = {'dict': dict, 'odict': OrderedDict, 'mydict': collab.MyDict,
                   'slotdict': collab.SlotDict, 'simdict': collab.SimDict}[t]
            obj = cls()
            if t == 'simdict':
                obj._k, obj._sid = self.k, self._sim_id(r)
            self._reg(r, obj)
            for kk, vv in v:
                if t == 'simdict':
                    dict.__setitem__(obj, self.value(kk), self.value(vv))   # no collaborator point
                else:
                    obj[self.value(kk)] = self.value(vv)    # (OrderedDict keeps its own order list)
            return obj
        if t in ('list', 'mylist', 'slotlist', 'simlist'):
            cls = {'list': list, 'mylist': collab.MyList, 'slotlist': collab.SlotList,
                   'simlist': collab.SimList}[t]
            obj = cls()
            if t == 'simlist':
                obj._k, obj._sid = self.k, self._sim_id(r)
            self._reg(r, obj)
            for x in v:
                list.append(obj, self.value(x))
            return obj
        if t == 'tuple':
            return self._reg(r, tuple(self.value(x) for x in v))
        if t == 'anyeq':
            return collab.AnyEq()
        if t == 'mytuple':
            return self._reg(r, collab.MyTuple(self.value(x) for x in v))
        if t == 'set':
            return self._reg(r, set(self.value(x) for x in v))
        if t == 'frozenset':
            return self._reg(r, frozenset(self.value(x) for x in v))
        if t == 'range':
            return self._reg(r, range(*v))
        if t == 'bytes':
            return v.encode('latin-1')
        if t == 'gen':
            items = [self.value(x) for x in v]
            return self._reg(r, (x for x in items))
        if t in ('obj', 'roprop'):
            cls = collab.Obj if t == 'obj' else collab.ROProp
            obj = cls()
            self._reg(r, obj)
            for kk, vv in v:
                obj.__dict__[kk] = self.value(vv)
            return obj
        if t == 'slotted':
            obj = collab.Slotted()
            self._reg(r, obj)
            for kk, vv in v:
                setattr(obj, kk, self.value(vv))
            return obj
        if t == 'simobj':
            obj = collab.SimObj()
            obj._k, obj._sid, obj._d = self.k, self._sim_id(r), {}
            self._reg(r, obj)
            for kk, vv in v:
                obj._d[kk] = self.value(vv)
            return obj
        if t == 'simiter':
            obj = collab.SimIter(self.k, self._sim_id(r), [], inf=bool(r.get('inf')))
            self._reg(r, obj)
            obj._items.extend(self.value(x) for x in v)
            return obj
        if t == 'simnum':
            return self._reg(r, collab.SimNum(self.k, self._sim_id(r), v))
        if t == 'SKIP':
            return G.SKIP
        if t == 'STOP':
            return G.STOP
        if t == 'type':
            return TYPES[v]
        if t == 'slice':
            return slice(*v)
        raise ValueError(f'unknown value recipe {r!r}')

    def arg_value(self, r, where):
        """a value in argument position (defaults, call arguments, S(...) values): glom rebuilds plain
        list/dict containers there, so the very object passed in must never come back in a result"""
        v = self.value(r)
        if type(v) in (list, dict):
            self.keep.append(v)
            self.arg_literals[id(v)] = where
        return v

    # ------------------------------------------------------------------ callables
    def func(self, name):
        if name in ('skip_odd', 'stop_ge5', 'sent_eq3', 'skip3_stop7'):
            return self._control_fn(name)
        if name in FUNCS:
            return FUNCS[name]
        if name in LAMBDAS:
            return LAMBDAS[name]
        if name in TYPES:
            return TYPES[name]
        raise ValueError(name)

    def _control_fn(self, name):
        """functions returning this instance's SKIP / STOP singletons, or the sentinel -1"""
        cache = self.__dict__.setdefault('_ctl', {})
        if name not in cache:
            SKIP, STOP = self.G.SKIP, self.G.STOP
            f = {
                'skip_odd': lambda x: SKIP if x % 2 else x,
                'stop_ge5': lambda x: STOP if x >= 5 else x,
                'sent_eq3': lambda x: -1 if x == 3 else x,
                'skip3_stop7': lambda x: SKIP if x == 3 else (STOP if x == 7 else x),
            }[name]
            cache[name] = NamedFn(name, f)
        return cache[name]

    def probe(self, pid, mode='id', arg=None):
        p = self.probes.get(pid)
        if p is None:
            a = arg
            if mode == 'const':
                a = self.value(arg)
            elif mode == 'nested':
                a = self._nested_fn(arg)
            elif mode == 'fn':
                p = collab.Probe(self.k, pid, 'fn', fn=self.func(arg))
                self.probes[pid] = p
                return p
            p = self.probes[pid] = collab.Probe(self.k, pid, mode, a)
        return p

    def _nested_fn(self, d):
        """d = {'target': value recipe | 'arg', 'spec': spec recipe, 'handle': 'return'|'raise'|
        'swallow', 'kw': {...}} -> fn(probe, args, nth) making a re-entrant top-level call"""
        def fn(probe, args, nth):
            from . import canon
            G, k = self.G, self.k
            me = k.cur_task
            depth_key = ('_nest', me, probe.pid)
            if d.get('max_depth') is not None and self.__dict__.get(depth_key, 0) >= d['max_depth']:
                return args[0]
            if self.nested_stub is not None and (probe.pid, nth) in self.nested_stub:
                k.event(probe.site + '.stub', 'nested-stubbed', None)
                return args[0] if d.get('handle') == 'passthrough' else self.nested_stub[(probe.pid, nth)]
            k.event(probe.site + '.entry', 'nested-entry',
                    {'pid': probe.pid, 'counts': sorted([[list(key), n] for key, n in k.counts.items()
                                                         if key[0] == me])})
            tgt = args[0] if d.get('target', 'arg') == 'arg' else self.value(d['target'])
            spec = self.spec(d['spec'])
            kw = {}
            if 'default' in d:
                kw['default'] = self.value(d['default'])
            self.__dict__[depth_key] = self.__dict__.get(depth_key, 0) + 1
            try:
                res = ('ok', G.glom(tgt, spec, **kw))
            except Exception as e:
                res = ('exc', e)
            finally:
                self.__dict__[depth_key] -= 1
            k.event(probe.site + '.inner', 'nested-outcome',
                    canon.outcome(res, self.idmap, with_text=self.eager_render))
            if self.on_nested:
                self.on_nested(d, res, probe.pid, nth)
            if res[0] == 'ok' and d.get('handle') != 'passthrough':
                return res[1]
            h = d.get('handle', 'raise')
            if h == 'passthrough':
                return args[0]
            if h == 'raise':
                raise res[1]
            if h == 'rewrap':
                raise ValueError('inner failed: ' + type(res[1]).__name__)
            return f'swallowed:{type(res[1]).__name__}'
        return fn

    def callable_(self, r):
        """recipe for something callable: ['probe',..] | ['fn', name]"""
        if r is None:
            return None
        if r[0] == 'probe':
            return self.probe(*r[1:])
        if r[0] == 'fn':
            return self.func(r[1])
        if r[0] == 'type':
            return TYPES[r[1]]
        return self.spec(r)

    # ------------------------------------------------------------------ specs
    def t_expr(self, root, ops):
        G = self.G
        cur = {'T': G.T, 'S': G.S, 'A': G.A}[root]
        for op, arg in ops:
            if op == '.':
                cur = getattr(cur, arg)
            elif op == '[':
                cur = cur[self.value(arg)]
            elif op == '(':
                a, kw = arg
                cur = cur(*[self.arg_value(x, 'T() argument') for x in a],
                          **{k_: self.arg_value(x, 'T() / S() keyword value') for k_, x in kw.items()})
            elif op == 'x':
                cur = cur.__star__()
            elif op == 'X':
                cur = cur.__starstar__()
            elif op == '~':
                cur = ~cur
            elif op == '_':
                cur = -cur
            else:
                f = {'+': operator.add, '-': operator.sub, '*': operator.mul,
                     '/': operator.truediv, '#': operator.floordiv, '%': operator.mod,
                     ':': operator.pow, '&': operator.and_, '|': operator.or_,
                     '^': operator.xor}[op]
                cur = f(cur, self.value(arg))
        return cur

    def spec(self, r):
        G = self.G
        if not isinstance(r, list):
            raise ValueError(f'spec recipe must be a list: {r!r}')
        kind = r[0]
        S = self.spec
        if kind == 'str':
            return r[1]
        if kind == 'T':
            return self.t_expr(r[1], r[2])
        if kind == 'Path':
            return G.Path(*[self.value(p) for p in r[1]])
        if kind in ('dict', 'odict'):
            d = {} if kind == 'dict' else OrderedDict()
            for kk, vv in r[1]:
                d[self.value(kk)] = S(vv)
            return d
        if kind == 'list':
            return [S(x) for x in r[1]]
        if kind == 'tuple':
            return tuple(S(x) for x in r[1])
        if kind == 'set':
            return set(S(x) for x in r[1])
        if kind == 'frozenset':
            return frozenset(S(x) for x in r[1])
        if kind == 'Pipe':
            return G.Pipe(*[S(x) for x in r[1]])
        if kind == 'probe':
            return self.probe(*r[1:])
        if kind == 'fn':
            return self.func(r[1])
        if kind == 'lit':
            return self.value(r[1])
        if kind == 'type':
            return TYPES[r[1]]
        if kind == 'Val':
            return G.Val(self.value(r[1]))
        if kind == 'Spec':
            if len(r) > 2 and r[2] is not None:
                return G.Spec(S(r[1]), scope={kk: self.value(vv) for kk, vv in r[2]})
            return G.Spec(S(r[1]))
        if kind == 'Coalesce':
            kw = {}
            o = r[2] if len(r) > 2 and r[2] else {}
            if 'default' in o:
                kw['default'] = self.arg_value(o['default'], 'Coalesce default')
            if 'default_factory' in o:
                kw['default_factory'] = self.callable_(o['default_factory'])
            if 'skip' in o:
                kw['skip'] = self.value(o['skip'])
            if 'skip_exc' in o:
                kw['skip_exc'] = self.exc_classes(o['skip_exc'])
            return G.Coalesce(*[S(x) for x in r[1]], **kw)
        if kind == 'Call':
            func = self.callable_(r[1]) if r[1] is not None else None
            return G.Call(func, args=self.value(r[2]) if r[2] is not None else None,
                          kwargs=self.value(r[3]) if len(r) > 3 and r[3] is not None else None)
        if kind == 'Invoke':
            f = r[1]
            if f[0] == 'specfunc':
                inv = G.Invoke.specfunc(S(f[1]))
            else:
                inv = G.Invoke(self.callable_(f))
            for op, a, kw in r[2]:
                if op == 'C':
                    inv = inv.constants(*[self.value(x) for x in a],
                                        **{k_: self.value(x) for k_, x in (kw or {}).items()})
                elif op == 'S':
                    inv = inv.specs(*[S(x) for x in a], **{k_: S(x) for k_, x in (kw or {}).items()})
                else:
                    inv = inv.star(args=S(a) if a is not None else None,
                                   kwargs=S(kw) if kw is not None else None)
            return inv
        if kind == 'Ref':
            if len(r) > 2 and r[2] is not None:
                return G.Ref(r[1], S(r[2]))
            return G.Ref(r[1])
        if kind in ('Or', 'And'):
            kw = {}
            if len(r) > 2 and r[2] is not None and 'default' in r[2]:
                kw['default'] = self.arg_value(r[2]['default'], kind + ' default')
            return getattr(G, kind)(*[S(x) for x in r[1]], **kw)
        if kind == 'Not':
            return G.Not(S(r[1]))
        if kind == 'Switch':
            kw = {}
            if len(r) > 2 and r[2] is not None and 'default' in r[2]:
                kw['default'] = self.arg_value(r[2]['default'], 'Switch default')
            return G.Switch([(S(a), S(b)) for a, b in r[1]], **kw)
        if kind == 'Match':
            kw = {}
            if len(r) > 2 and r[2] is not None and 'default' in r[2]:
                kw['default'] = self.arg_value(r[2]['default'], 'Match default')
            return G.Match(S(r[1]), **kw)
        if kind == 'Check':
            o = dict(r[2] or {})
            kw = {}
            if 'type' in o:
                kw['type'] = tuple(TYPES[x] for x in o['type']) if isinstance(o['type'], list) else TYPES[o['type']]
            if 'instance_of' in o:
                kw['instance_of'] = tuple(TYPES[x] for x in o['instance_of'])
            if 'equal_to' in o:
                kw['equal_to'] = self.value(o['equal_to'])
            if 'one_of' in o:
                kw['one_of'] = tuple(self.value(x) for x in o['one_of'])
            if 'validate' in o:
                kw['validate'] = self.callable_(o['validate'])
            if 'default' in o:
                kw['default'] = self.value(o['default'])
            if r[1] is None:
                return G.Check(**kw)
            return G.Check(S(r[1]), **kw)
        if kind == 'M':
            M = G.M
            if r[1] is None:
                return M
            lhs = M if r[1] == 'M' else M(S(r[1]))
            rhs = self.value(r[3])
            return {'==': operator.eq, '!=': operator.ne, '<': operator.lt, '>': operator.gt,
                    '<=': operator.le, '>=': operator.ge}[r[2]](lhs, rhs)
        if kind == 'Regex':
            if len(r) > 2 and r[2]:
                import re as _re
                return G.Regex(r[1], func={'search': _re.search, 'match': _re.match, 'fullmatch': _re.fullmatch}[r[2]])
            return G.Regex(r[1])
        if kind == 'Optional':
            if len(r) > 2:
                return G.Optional(self.value(r[1]), self.value(r[2]))
            return G.Optional(self.value(r[1]))
        if kind == 'Required':
            return G.Required(S(r[1]))
        if kind == 'Fill':
            return G.Fill(S(r[1]))
        if kind == 'Auto':
            return G.Auto(S(r[1]))
        if kind == 'Fold':
            kw = {}
            if len(r) > 3 and r[3] is not None:
                kw['op'] = self.callable_(r[3])
            return G.Fold(S(r[1]) if r[1] is not None else G.T, init=self.callable_(r[2]), **kw)
        if kind in ('Sum', 'Flatten', 'Merge'):
            cls = getattr(G, kind)
            kw = {}
            if len(r) > 1 and r[1] is not None:
                kw['subspec'] = S(r[1])
            if len(r) > 2 and r[2] is not None:
                kw['init'] = 'lazy' if r[2] == 'lazy' else self.callable_(r[2])
            if kind == 'Merge' and len(r) > 3 and r[3] is not None:
                kw['op'] = r[3] if isinstance(r[3], str) else self.callable_(r[3])
            return cls(**kw)
        if kind == 'Count':
            return G.reduction.Count()
        if kind == 'Group':
            return G.grouping.Group(S(r[1]))
        if kind == 'SumOfGroupSum':
            # a leaf aggregator whose sub-spec is itself a complete (nested) Group evaluation per item
            return G.Sum(G.grouping.Group(G.Sum()))
        if kind in ('First', 'Max', 'Min', 'Avg'):
            return getattr(G.grouping, kind)()
        if kind == 'Limit':
            if len(r) > 2 and r[2] is not None:
                return G.grouping.Limit(r[1], S(r[2]))
            return G.grouping.Limit(r[1])
        if kind == 'Sample':
            return G.grouping.Sample(r[1])
        if kind == 'Iter':
            return self.iter_spec(r)
        if kind == 'SFirst':
            kw = {}
            if len(r) > 2:
                kw['default'] = self.value(r[2])
            return G.streaming.First(S(r[1]) if r[1] is not None else G.T, **kw)
        if kind == 'Assign':
            kw = {}
            if len(r) > 3 and r[3] is not None:
                kw['missing'] = self.callable_(r[3])
            return G.Assign(self.path_arg(r[1]), self.value(r[2]), **kw)
        if kind == 'Delete':
            return G.Delete(self.path_arg(r[1]), ignore_missing=bool(r[2]) if len(r) > 2 else False)
        if kind == 'Vars':
            base = {kk: self.value(vv) for kk, vv in (r[1] or [])}
            dflt = {kk: self.value(vv) for kk, vv in (r[2] or [])} if len(r) > 2 else {}
            return G.Vars(base, **dflt) if base else G.Vars(**dflt)
        if kind == 'Let':
            return G.Let(**{kk: S(vv) for kk, vv in r[1]})
        if kind == 'shared':
            idx = r[1]
            if idx not in self.shared_objs:
                self.shared_objs[idx] = S(self.shared_recipes[idx])
            return self.shared_objs[idx]
        if kind == 'SKIP':
            return G.Val(G.SKIP)
        if kind == 'STOP':
            return G.Val(G.STOP)
        if kind == 'custom':
            return self.custom_spec(r)
        if kind == 'flex':
            return collab.FlexSpec(r[1], bool(r[2]))
        if kind == 'compose':
            # ['compose', first callable recipe, second callable recipe] -> x -> second(first(x))
            f1, f2 = self.callable_(r[1]), self.callable_(r[2])
            return NamedFn(f'{getattr(f2, "__name__", "f")}_after_{getattr(f1, "__name__", "g")}',
                           lambda x: f2(f1(x)))
        raise ValueError(f'unknown spec recipe {r!r}')

    def exc_classes(self, names):
        if isinstance(names, str):
            return self.k.cat.cls(names)
        cl = tuple(self.k.cat.cls(n) for n in names)
        return cl

    def path_arg(self, r):
        """path argument of Assign/Delete: ['str', text] | ['T', …] | ['Path', …]"""
        if r[0] == 'str':
            return r[1]
        return self.spec(r)

    def iter_spec(self, r):
        """['Iter', sub|None, opts{sentinel}, stages[[name, args…]], terminal|None]"""
        G = self.G
        _, sub, opts, stages, terminal = (r + [None, None, None, None])[:5]
        kw = {}
        if opts and 'sentinel' in opts:
            kw['sentinel'] = self.value(opts['sentinel'])
        it = G.Iter(self.spec(sub), **kw) if sub is not None else G.Iter(**kw)
        for st in stages or []:
            it = self.iter_stage(it, st)
        if terminal:
            if terminal[0] == 'all':
                return it.all()
            if terminal[0] == 'first':
                kw = {}
                if len(terminal) > 1 and terminal[1] is not None:
                    kw['key'] = self.spec(terminal[1])
                if len(terminal) > 2:
                    kw['default'] = self.value(terminal[2])
                return it.first(**kw)
        return it

    def iter_stage(self, it, st):
        name, args = st[0], st[1:]
        if name in ('map', 'filter', 'unique', 'takewhile', 'dropwhile'):
            if args and args[0] is not None:
                return getattr(it, name)(self.spec(args[0]))
            return getattr(it, name)() if name != 'map' else it.map(self.G.T)
        if name == 'chunked':
            if len(args) > 1:
                return it.chunked(args[0], fill=self.value(args[1]))
            return it.chunked(args[0])
        if name == 'windowed':
            return it.windowed(args[0])
        if name == 'split':
            kw = {}
            if len(args) > 0 and args[0] is not None:
                kw['sep'] = self.value(args[0])
            if len(args) > 1 and args[1] is not None:
                kw['maxsplit'] = args[1]
            return it.split(**kw)
        if name == 'flatten':
            return it.flatten()
        if name == 'slice':
            return it.slice(*args)
        if name == 'limit':
            return it.limit(args[0])
        raise ValueError(name)

    def custom_spec(self, r):
        """['custom', pid, inner spec recipe, mode]: a user-defined spec type whose glomit makes a
        point, then (mode 'scope') evaluates the inner spec through scope[glom], or (mode
        'reenter') through a brand-new top-level glom() call"""
        G, k = self.G, self.k
        _, pid, inner, mode = r
        inner_spec = self.spec(inner)
        site = f'c{pid}'

        class Custom:
            def glomit(self_, target, scope):
                from .canon import short
                k.point(site, 'glomit', short(target))
                if mode == 'reenter':
                    return G.glom(target, inner_spec)
                return scope[G.glom](target, inner_spec, scope)

            def __repr__(self_):
                return f'Custom{pid}({inner_spec!r})'
        return Custom()
