"""Engine-level self-tests.

determinism: for each property, N seeds are executed (a) twice in one process, (b) in fresh
interpreters under PYTHONHASHSEED in {0, 1, 12345} and worker counts {1, 16}; the per-seed digests
(event logs, switch sequences, fired faults, stats, verdicts) must be identical across all variants.
"""
import json
import os
import subprocess
import sys
import tempfile

from . import runner

VERIF = runner.VERIF


def determinism(props, n_seeds=200, tier='quick'):
    total_bad = 0
    for prop in props:
        bad = 0
        mod = runner.check_module(prop)
        seeds = [7 * 1_000_003 + i for i in range(min(n_seeds, 60))]
        a = {}
        for s in seeds:
            r1, r2 = mod.run_seed(s, tier), mod.run_seed(s, tier)
            d1, d2 = runner.seed_digest(r1), runner.seed_digest(r2)
            if d1 != d2:
                print(f'NONDETERMINISTIC in-process property={prop} seed={s}')
                bad += 1
        variants = {}
        with tempfile.TemporaryDirectory(prefix='glomsim_det_') as td:
            for hs in ('0', '1', '12345'):
                for procs in ('1', '16'):
                    out = os.path.join(td, f'd_{hs}_{procs}.json')
                    env = dict(os.environ, PYTHONHASHSEED=hs, VERIF_SEED='7', VERIF_OUT=td)
                    p = subprocess.run([sys.executable, os.path.join(VERIF, 'run_check.py'), '--digests', out,
                                        prop, tier, '--seeds', str(n_seeds), '--procs', procs, '--wall', '3000'],
                                       env=env, capture_output=True, text=True, cwd=VERIF, timeout=1800)
                    if p.returncode != 0 or not os.path.exists(out):
                        print(f'variant failed property={prop} hashseed={hs} procs={procs}: {p.stdout[-500:]} {p.stderr[-500:]}')
                        bad += 1
                        continue
                    variants[(hs, procs)] = json.load(open(out))['digests']
        ref_key = ('0', '16')
        ref = variants.get(ref_key, {})
        for key, d in variants.items():
            diff = [s for s in ref if s in d and d[s] != ref[s]]
            if len(d) != len(ref):
                print(f'INCOMPLETE property={prop} variant={key}: {len(d)} of {len(ref)} seeds ran (wall limit?)')
            if diff or len(d) != len(ref):
                print(f'NONDETERMINISTIC property={prop} variant={key} vs {ref_key}: {len(diff)} seeds differ, e.g. {diff[:5]}')
                bad += 1
        print(f'determinism property={prop}: {len(ref)} seeds x {len(variants)} variants '
              f'+ {len(seeds)} in-process double runs: {"OK" if not bad else "FAILED"}')
        total_bad += bad
    return 1 if total_bad else 0


def main(argv):
    if not argv:
        print(__doc__)
        return 2
    what, rest = argv[0], argv[1:]
    n = 200
    if '--seeds' in rest:
        i = rest.index('--seeds')
        n = int(rest[i + 1])
        rest = rest[:i] + rest[i + 2:]
    props = [p.upper() for p in rest] or ['C20']
    if what == 'determinism':
        return determinism(props, n_seeds=n)
    print('unknown selftest', what)
    return 2
