"""Delta-debugging minimiser over JSON cases.

A case is a JSON tree (operations, recipes, explicit fault map, explicit switch map, knobs).
A candidate is accepted only if running it still yields a violation with the *same clause and the
same signature*.  Candidates that make the harness itself raise (ill-formed recipes) are rejected.
"""
import copy
import time


def _paths(node, path=()):
    """yield (path, node) for every container node, parents before children"""
    yield path, node
    if isinstance(node, dict):
        for k in list(node):
            yield from _paths(node[k], path + (k,))
    elif isinstance(node, list):
        for i, x in enumerate(node):
            yield from _paths(x, path + (i,))


def _get(root, path):
    for p in path:
        root = root[p]
    return root


def _set(root, path, val):
    if not path:
        return val
    root = copy.deepcopy(root)
    cur = root
    for p in path[:-1]:
        cur = cur[p]
    cur[path[-1]] = val
    return root


def _del(root, path):
    root = copy.deepcopy(root)
    cur = root
    for p in path[:-1]:
        cur = cur[p]
    del cur[path[-1]]
    return root


def _is_spec(n):
    return isinstance(n, list) and n and isinstance(n[0], str)


def _is_val(n):
    return isinstance(n, dict) and 't' in n


def _sub_specs(n):
    for p, x in _paths(n):
        if p and _is_spec(x):
            yield x


def _sub_vals(n):
    for p, x in _paths(n):
        if p and (_is_val(x) or isinstance(x, (int, str)) and not isinstance(x, bool)):
            yield x


# string-valued enumerations: shortening them only produces ill-formed cases
_ENUM_KEYS = ('t', 'cls', 'api', 'style', 'mode', 'kind', 'fmt', 'container', 'op', 'lop', 'reg', 'type',
              'handle', 'fault', 'fault_on', 'fault_cls', 'exc', 'spec_channel', 'target_channel', 'spec_format',
              'item_kind', 'what', 'empty', 'hostile', 'sub', 'id', 'name')


def _numkey(k):
    try:
        return (0, int(k))
    except (TypeError, ValueError):
        return (1, str(k))


def candidates(case, protect=('knobs', 'seed', 'prop', 'exc_pool')):
    """generate smaller cases, roughly most-aggressive first"""
    # 1. drop entries of explicit decision maps, whole
    for key in ('faults', 'switches'):
        if isinstance(case.get(key), dict) and case[key]:
            yield _set(case, (key,), {})
            ks = sorted(case[key], key=_numkey)
            n = len(ks)
            step = n // 2
            while step >= 2:
                for i in range(0, n, step):
                    drop = set(ks[i:i + step])
                    yield _set(case, (key,), {k: v for k, v in case[key].items() if k not in drop})
                step //= 2
    for key in ('line_crash',):
        if case.get(key):
            yield _set(case, (key,), None)
    # 2. drop list elements (operations, tasks, pool entries, spec children, container items)
    nodes = list(_paths(case))
    for path, node in nodes:
        if path and (path[0] in protect or 'knobs' in path or 'classes' in path):
            continue
        if isinstance(node, list) and not _is_spec(node):
            n = len(node)
            if n > 4:
                yield _set(case, path, node[:n // 2])
                yield _set(case, path, node[n // 2:])
            for i in range(n - 1, -1, -1):
                yield _del(case, path + (i,))
        elif isinstance(node, dict) and not _is_val(node) and path and path[-1] in ('faults', 'switches'):
            for k in list(node):
                yield _del(case, path + (k,))
    # 3. replace a spec node by one of its sub-specs / a value node by one of its sub-values
    for path, node in nodes:
        if not path or path[0] in protect or 'knobs' in path or 'classes' in path:
            continue
        if _is_spec(node):
            for sub in _sub_specs(node):
                yield _set(case, path, sub)
            if node[0] not in ('T', 'str') and len(node) > 1:
                yield _set(case, path, ['T', 'T', []])
        elif _is_val(node):
            for sub in _sub_vals(node):
                yield _set(case, path, sub)
            yield _set(case, path, 0)
    # 4. shrink scalars
    for path, node in nodes:
        if not path or path[0] in protect or 'knobs' in path or 'classes' in path:
            continue
        if isinstance(node, bool):
            continue
        if isinstance(node, int) and node not in (0, 1) and path[-1] not in ('n', 'pid'):
            yield _set(case, path, 0)
            yield _set(case, path, node // 2)
        elif isinstance(node, str) and len(node) > 3 and path[-1] not in _ENUM_KEYS \
                and not (isinstance(path[-1], int) and path[-1] == 0):
            yield _set(case, path, node[:1])


CAND_TIMEOUT = 20.0


def _run_forked(mod, c, clause, sig, timeout):
    import json
    import os
    import select
    import signal
    rfd, wfd = os.pipe()
    pid = os.fork()
    if pid == 0:
        code = 0
        try:
            os.close(rfd)
            res = None
            try:
                out = mod.run_case(c)
                for v in out['violations']:
                    if v['clause'] == clause and v['sig'] == sig:
                        res = v
                        break
            except BaseException:
                res = None
            data = json.dumps(res, default=str).encode()
            while data:
                n = os.write(wfd, data[:65536])
                data = data[n:]
        except BaseException:
            code = 1
        finally:
            os._exit(code)
    os.close(wfd)
    chunks = []
    deadline = time.time() + timeout
    timed_out = False
    try:
        while True:
            left = deadline - time.time()
            if left <= 0:
                timed_out = True
                break
            ready, _, _ = select.select([rfd], [], [], left)
            if not ready:
                timed_out = True
                break
            b = os.read(rfd, 1 << 16)
            if not b:
                break
            chunks.append(b)
    finally:
        os.close(rfd)
        if timed_out:
            try:
                os.kill(pid, signal.SIGKILL)
            except OSError:
                pass
        try:
            os.waitpid(pid, 0)
        except OSError:
            pass
    if timed_out:
        return None
    try:
        return json.loads(b''.join(chunks).decode())
    except ValueError:
        return None


def minimise(mod, case, viol, budget_s=40, max_runs=2500):
    clause, sig = viol['clause'], viol['sig']
    t0 = time.time()
    runs = 0
    best, best_v = case, viol
    custom = getattr(mod, 'shrink_candidates', None)

    def still_fails(c):
        # every candidate runs in a forked child with a wall-clock limit: a shrunk case can be
        # pathological in ways generated ones never are (e.g. a bare S as a spec makes the scope the
        # target, and glom's trace then spends minutes on repr(scope)); a hang must cost one
        # candidate, not the batch
        return _run_forked(mod, c, clause, sig, CAND_TIMEOUT)

    # make sure the recorded case fails at all (and get a digest for it)
    v0 = still_fails(best)
    if v0 is None:
        return case, viol
    best_v = v0
    progress = True
    while progress and runs < max_runs and time.time() - t0 < budget_s:
        progress = False
        gens = []
        if custom:
            gens.append(custom(best))
        gens.append(candidates(best))
        for gen in gens:
            for cand in gen:
                if runs >= max_runs or time.time() - t0 > budget_s:
                    break
                if cand == best:
                    continue
                runs += 1
                v = still_fails(cand)
                if v is not None:
                    best, best_v = cand, v
                    progress = True
                    break
            if progress:
                break
    return best, best_v
