"""C17 — Iter pipelines equal the itertools composition, stay lazy, never mutate specs.

glom's stream surface: a lazy pipeline reads from a source *over time*, under a consumer that may
stop, interleave or be faulted.  Sources are simulator-owned iterables (every __iter__/__next__ is
a point and is counted).  Modes per seed: every-prefix consumer (k = 0..n+1 outputs), two live
iterators of one spec pulled alternately in a seeded order, builder histories (a base spec is
evaluated, extended, evaluated again, its derivatives evaluated), source fault at item j, consumer
abandoning after k, Invoke builder histories.  Oracle: outputs == the same stages composed from
itertools/boltons in builder-call order; pulls(k) <= reference pulls + largest window/chunk size;
runs stay within the step budget on infinite sources; base specs are identical (repr, object graph,
behaviour) after deriving and running derivatives; after a source fault the outputs so far are a
prefix of the reference, the exception keeps its class, and other live iterators are unaffected.
"""
import copy
import gc
import random

from .. import simrun, canon, build
from ..kernel import SimBudgetExceeded
from ..models import iter_ref

PROP = 'C17'
LEVEL = 'exploration'
RULE = ('seeded stage sequences (<= 4 stages over map/filter/slice/limit/takewhile/dropwhile/chunked/'
        'windowed/split/flatten/unique with small parameters, base subspecs yielding SKIP/STOP/sentinel, '
        'terminals none/all/first) x finite and infinite counted sources x consumer schedules (every k, '
        'alternating iterators, abandon, source fault at j) and builder histories (Iter and Invoke); '
        'distinct = hash(chain, sources, mode parameters); non-trivial = >= 1 stage and (>= 2 consumer '
        'steps or a builder history or a fault)')
ASSUMPTIONS = [
    'boltons chunked_iter/windowed_iter/split_iter/unique_iter and itertools are the reference for the stages',
    'stage callbacks are total functions and do not return SKIP/STOP (the statement does not say what a stage does with them)',
    'pull-count slack = largest window/chunk size (a harmless look-ahead must not alarm)',
]

INT_MAPS = ['inc', 'double', 'mod3', 'neg']
INT_PREDS = ['is_even', 'is_odd', 'gt1', 'lt3', 'lt6', 'truthy']
SEQ_MAPS_INT = ['len', 'sum', 'first_or0']
SEQ_MAPS_SEQ = ['list', 'tupled']
SEQ_PREDS = ['nonempty', 'len_lt2']


build.LAMBDAS['spawn'] = build.NamedFn('spawn', iter_ref.spawn)
build.LAMBDAS['fail3'] = build.NamedFn('fail3', iter_ref.fail3)


def budget(tier):
    if tier == 'thorough':
        return {'seeds': 400000, 'wall': 900, 'chunk': 100}
    return {'seeds': 30000, 'wall': 200, 'chunk': 50}


def gen_chain(rng, max_stages=4):
    sub = rng.choice([None, None, 'inc', 'double', 'skip_odd', 'stop_ge5', 'sent_eq3', 'skip3_stop7'])
    sentinel = -1 if sub == 'sent_eq3' or rng.random() < 0.1 else None
    kind = 'int'
    stages = []
    for _ in range(rng.randint(0, max_stages)):
        st = gen_stage(rng, kind)
        stages.append(st[0])
        kind = st[1]
    if kind == 'lazyseq':
        stages.append(['flatten'])
        kind = 'int'
    r = rng.random()
    if r < 0.45:
        terminal = None
    elif r < 0.75:
        terminal = ['all']
    else:
        key = None if rng.random() < 0.4 else rng.choice(INT_PREDS if kind == 'int' else SEQ_PREDS)
        terminal = ['first', key] + ([rng.choice(['dflt', 0])] if rng.random() < 0.5 else [])
    return {'sub': sub, 'sentinel': sentinel, 'stages': stages, 'terminal': terminal, 'kind': kind}


def gen_stage(rng, kind):
    """-> (stage recipe with function *names*, resulting element kind)"""
    if kind == 'lazyseq':
        return ['flatten'], 'int'
    if kind == 'int':
        c = rng.choice(['map', 'filter', 'slice', 'limit', 'takewhile', 'dropwhile', 'chunked', 'windowed',
                        'split', 'unique', 'filter', 'map', 'spawn'])
        if c == 'spawn':
            # each element becomes a lazy sub-stream (only flatten() may follow)
            return ['map', 'spawn'], 'lazyseq'
        if c == 'map':
            return ['map', rng.choice(INT_MAPS)], 'int'
        if c == 'filter':
            return ['filter', rng.choice(INT_PREDS + [None])], 'int'
        if c == 'slice':
            a = rng.randint(0, 3)
            if rng.random() < 0.2:
                # open-ended forms, as for itertools.islice: (start, None) skips, it does not stop
                return rng.choice([['slice', a, None], ['slice', a, None, None], ['slice', a, None, rng.randint(1, 3)],
                                   ['slice', None, a + 2]]), 'int'
            return ['slice', a, a + rng.randint(0, 5)] + ([rng.randint(1, 3)] if rng.random() < 0.4 else []), 'int'
        if c == 'limit':
            return ['limit', rng.randint(0, 6)], 'int'
        if c in ('takewhile', 'dropwhile'):
            return [c, rng.choice(INT_PREDS + [None])], 'int'
        if c == 'chunked':
            return ['chunked', rng.randint(1, 4)] + ([0] if rng.random() < 0.3 else []), 'seq'
        if c == 'windowed':
            return ['windowed', rng.randint(1, 3)], 'seq'
        if c == 'split':
            return ['split', rng.choice([0, 1, 2]), rng.choice([None, None, 1, 2])], 'seq'
        return ['unique', rng.choice([None, 'mod3', 'is_even'])], 'int'
    c = rng.choice(['map_int', 'map_seq', 'filter', 'flatten', 'flatten', 'limit', 'takewhile', 'unique', 'slice'])
    if c == 'map_int':
        return ['map', rng.choice(SEQ_MAPS_INT)], 'int'
    if c == 'map_seq':
        return ['map', rng.choice(SEQ_MAPS_SEQ)], 'seq'
    if c == 'filter':
        return ['filter', rng.choice(SEQ_PREDS + [None])], 'seq'
    if c == 'flatten':
        return ['flatten'], 'int'
    if c == 'limit':
        return ['limit', rng.randint(0, 4)], 'seq'
    if c == 'slice':
        return ['slice', rng.randint(0, 2), rng.randint(2, 5)], 'seq'
    if c == 'takewhile':
        return ['takewhile', rng.choice(SEQ_PREDS)], 'seq'
    return ['unique', rng.choice(['tupled', 'len'])], 'seq'


def gen_case(seed, tier):
    rng = random.Random(seed)
    chain = gen_chain(rng)
    nsrc = 2
    sources = []
    for _ in range(nsrc):
        inf = rng.random() < 0.25
        # (with a sentinel, the source may contain the sentinel value itself: it ends the stream only
        # when it is what the SUBSPEC yields for an element, e.g. 'inc' turns -1 into 0 and goes on)
        lo = -1 if chain['sentinel'] == -1 and rng.random() < 0.5 else 0
        items = [rng.randint(lo, 9) for _ in range(rng.randint(0 if not inf else 1, 12))]
        if lo == -1 and rng.random() < 0.5:
            # ... or something EQUAL to the sentinel that is not the sentinel (-1.0 == -1): the sentinel
            # is an identity, like iter(callable, sentinel)'s is not
            items = [-1.0 if x == -1 and rng.random() < 0.6 else x for x in items]
        sources.append({'items': items, 'inf': inf})
    mode = rng.choice(['prefix', 'prefix', 'alternate', 'builder', 'builder', 'fault', 'abandon', 'invoke', 'resume'])
    case = {'prop': PROP, 'seed': seed, 'knobs': simrun.draw_knobs(rng), 'chain': chain, 'sources': sources,
            'mode': mode}
    if mode in ('prefix', 'alternate', 'abandon') and chain['kind'] == 'int' and rng.random() < 0.12:
        # two map stages in a row, the first of which yields glom's SKIP / STOP: a map stage hands on
        # whatever its function returns (only the Iter's own subspec interprets SKIP / STOP)
        chain['stages'] += [['map', rng.choice(['skip_odd', 'stop_ge5'])], ['map', 'ident']]
        if chain['terminal'] and chain['terminal'][0] == 'first':
            chain['terminal'] = None
    elif mode in ('prefix', 'alternate', 'abandon') and chain['kind'] == 'int' and rng.random() < 0.08:
        # elements become STRINGS, then flatten(): a string is taken apart like any other iterable
        chain['stages'] += [['map', 'tostr'], ['flatten']]
        if chain['terminal'] and chain['terminal'][0] == 'first':
            chain['terminal'] = None
    if mode == 'resume':
        # a stage function that fails on one element; the consumer catches the error and goes on
        kinds = ['int']
        for st_ in chain['stages']:
            kinds.append(_kind_after(st_, kinds[-1]))
        pos = rng.choice([i for i, kd in enumerate(kinds) if kd == 'int'])
        chain['stages'].insert(pos, [rng.choice(['map', 'map', 'filter']), 'fail3'])
        chain['terminal'] = None
        case['k'] = rng.randint(3, 14)
    if mode == 'alternate':
        case['order'] = [rng.randint(0, 1) for _ in range(rng.randint(4, 16))]
        case['chain']['terminal'] = None
    elif mode == 'builder':
        cut = rng.randint(0, len(chain['stages']))
        case['cut'] = cut
        kind = 'int'
        for st in chain['stages'][:cut]:
            kind = _kind_after(st, kind)
        extra = []
        for _ in range(2):
            k2 = kind
            ex = []
            for _ in range(rng.randint(1, 2)):
                st, k2 = gen_stage(rng, k2)
                ex.append(st)
            if k2 == 'lazyseq':
                ex.append(['flatten'])
            extra.append(ex)
        case['extra'] = extra
        case['chain']['terminal'] = None
    elif mode == 'fault':
        case['fault_at'] = rng.randint(0, 8)
        case['fault_cls'] = rng.choice(['UserErr', 'ValueError', 'KeyError', 'UGlomErr', 'KeyboardInterrupt'])
        case['fault_on'] = rng.choice(['next', 'next', 'iter'])
    elif mode == 'abandon':
        case['k'] = rng.randint(0, 5)
        case['chain']['terminal'] = None
    elif mode == 'invoke':
        ops = []
        for _ in range(rng.randint(1, 4)):
            r = rng.random()
            kw = {rng.choice(['a', 'b', 'c']): rng.randint(0, 9)} if rng.random() < 0.5 else {}
            if r < 0.45:
                ops.append(['C', [rng.randint(0, 9) for _ in range(rng.randint(0, 2))], kw])
            elif r < 0.85:
                ops.append(['S', [['T', 'T', []]] * rng.randint(0, 2), {k_: ['fn', 'len'] for k_ in kw}])
            else:
                ops.append(['*', ['T', 'T', []] if rng.random() < 0.7 else None, None])
        case['invoke_ops'] = ops
        case['cut'] = rng.randint(0, len(ops))
    return case


def _kind_after(st, kind):
    n = st[0]
    if n in ('chunked', 'windowed', 'split'):
        return 'seq'
    if n == 'flatten':
        return 'int'
    if n == 'map':
        if st[1] in ('spawn', 'tostr'):
            return 'lazyseq'
        if st[1] in SEQ_MAPS_INT:
            return 'int'
        if st[1] in SEQ_MAPS_SEQ:
            return 'seq'
    return kind


def spec_recipe(chain, stages=None, terminal='chain'):
    stages = chain['stages'] if stages is None else stages
    term = chain['terminal'] if terminal == 'chain' else terminal
    rs = []
    for st in stages:
        n = st[0]
        if n in ('map', 'filter', 'takewhile', 'dropwhile', 'unique'):
            rs.append([n, ['fn', st[1]] if len(st) > 1 and st[1] else None])
        else:
            rs.append(list(st))
    t = None
    if term:
        if term[0] == 'all':
            t = ['all']
        else:
            t = ['first', ['fn', term[1]] if term[1] else None] + term[2:]
    opts = {'sentinel': chain['sentinel']} if chain['sentinel'] is not None else None
    return ['Iter', ['fn', chain['sub']] if chain['sub'] else None, opts, rs, t]


def slack_of(stages):
    s = 1
    for st in stages:
        if st[0] in ('chunked', 'windowed'):
            s = max(s, st[1] + 1)
        if st[0] == 'split':
            s = max(s, 2)
    return s


REF_LIMIT = 400


def ref_prefix(chain, src, k, stages=None):
    """-> (outputs list (<= k), exhausted?, pulls) or None if the reference exceeds its budget"""
    c = iter_ref.Counting(src['items'], src['inf'], limit=REF_LIMIT)
    out = []
    exhausted = False
    iter_ref.SPAWN['pulled'] = 0
    ref_prefix.inner = None
    try:
        # (windowed_iter pulls at construction, so building the pipeline can already hit the budget)
        it = iter_ref.pipeline(c, chain['sub'], chain['sentinel'], chain['stages'] if stages is None else stages)
        for _ in range(k):
            try:
                out.append(next(it))
            except StopIteration:
                exhausted = True
                break
    except RuntimeError:
        return None
    ref_prefix.inner = iter_ref.SPAWN['pulled']
    return out, exhausted, c.pulled


class World:
    def __init__(self, case, faults=None):
        self.G = simrun.make_instance(case['knobs'])
        self.k = simrun.make_kernel(self.G, seed=0, faults=faults, max_events=6000)
        self.B = build.Builder(self.G, self.k)
        self.case = case
        self.nsrc = 0

    def source(self, src):
        self.nsrc += 1
        return self.B.value({'t': 'simiter', 'n': 100 + self.nsrc, 'v': src['items'], 'inf': src['inf']})


def _pull(it, k):
    out = []
    exhausted = False
    for _ in range(k):
        try:
            out.append(next(it))
        except StopIteration:
            exhausted = True
            break
    return out, exhausted


def run_case(case):
    mode = case['mode']
    viols = []
    stats = {'mode_' + mode: 1}
    chain = case['chain']
    digests = []

    def V(clause, detail, expected, observed):
        viols.append({'clause': clause, 'sig': f'{clause}/{detail}', 'expected': expected, 'observed': observed})

    def st(n_, x=1):
        stats[n_] = stats.get(n_, 0) + x
    try:
        if mode == 'prefix':
            _mode_prefix(case, V, st, digests)
        elif mode == 'alternate':
            _mode_alternate(case, V, st, digests)
        elif mode == 'builder':
            _mode_builder(case, V, st, digests)
        elif mode == 'fault':
            _mode_fault(case, V, st, digests)
        elif mode == 'abandon':
            _mode_abandon(case, V, st, digests)
        elif mode == 'resume':
            _mode_resume(case, V, st, digests)
        else:
            _mode_invoke(case, V, st, digests)
    except SimBudgetExceeded:
        st('budget_exceeded')
        V('laziness', f'step-budget-exceeded/{mode}', 'terminates within the step budget (reference does)', 'budget exceeded')
    d = simrun.jhash(digests)
    for v in viols:
        v['digest'] = d
    shape = simrun.jhash([chain, case['sources'], mode, case.get('order'), case.get('extra'), case.get('fault_at'),
                          case.get('invoke_ops')])
    nontrivial = bool(chain['stages']) or mode in ('builder', 'invoke', 'fault')
    return {'violations': viols, 'digest': d, 'stats': stats, 'shape': shape, 'nontrivial': nontrivial}


def _unsentinel(x):
    if type(x).__name__ == 'Sentinel':
        return x.name               # glom's SKIP / STOP objects <-> the reference's marker strings
    if type(x) in (list, tuple):
        return type(x)(_unsentinel(y) for y in x)
    return x


def _norm(x):
    return canon.canon(_unsentinel(x))


def _pull_resume(it, k):
    out = []
    for _ in range(k):
        try:
            out.append(['v', next(it)])
        except StopIteration:
            out.append(['end'])
            break
        except Exception as e:
            out.append(['e', type(e).__name__])
    return out


def _mode_resume(case, V, st, digests):
    chain = case['chain']
    src = case['sources'][0]
    k = case['k']
    c = iter_ref.Counting(src['items'], src['inf'], limit=REF_LIMIT)
    try:
        ref = _pull_resume(iter_ref.pipeline(c, chain['sub'], chain['sentinel'], chain['stages']), k)
    except RuntimeError:
        st('reference_budget_skip')
        return
    except ValueError:
        st('stage_pulls_at_construction_skip')      # (windowed_iter reads ahead while the pipeline is built)
        return
    if any(r[0] == 'e' and r[1] == 'RuntimeError' for r in ref):
        st('reference_budget_skip')
        return
    W = World(case)
    s = W.source(src)
    spec = W.B.spec(spec_recipe(chain, terminal=None))
    res = W.k.run_single(lambda: _pull_resume(iter(W.G.glom(s, spec)), k))
    digests.append(W.k.digest())
    st('evaluations')
    st('consumer_steps', k)
    if any(r[0] == 'e' for r in ref):
        st('reach.consumer_resumed_after_error')
    if res[0] != 'ok':
        V('outputs', 'resume-raised', _norm(ref), canon.outcome(res, with_text=False))
    elif _norm(res[1]) != _norm(ref):
        V('outputs', 'after-a-stage-error-the-stream-goes-on', _norm(ref), _norm(res[1]))


def _mode_prefix(case, V, st, digests):
    chain = case['chain']
    src = case['sources'][0]
    term = chain['terminal']
    if term is not None:
        # one evaluation with a terminal
        c = iter_ref.Counting(src['items'], src['inf'], limit=REF_LIMIT)
        try:
            it = iter_ref.pipeline(c, chain['sub'], chain['sentinel'], chain['stages'])
            if term[0] == 'all':
                exp = list(it)
            else:
                exp = iter_ref.first(it, term[1], term[2] if len(term) > 2 else None)
        except RuntimeError:
            st('reference_budget_skip')
            return
        W = World(case)
        s = W.source(src)
        spec = W.B.spec(spec_recipe(chain))
        res = W.k.run_single(lambda: W.G.glom(s, spec))
        digests.append(W.k.digest())
        st('evaluations')
        if res[0] != 'ok':
            V('outputs', f'terminal-{term[0]}-raised', _norm(exp), canon.outcome(res, with_text=False))
            return
        if _norm(res[1]) != _norm(exp):
            V('outputs', f'terminal-{term[0]}', _norm(exp), _norm(res[1]))
        if s._pulled > c.pulled + slack_of(chain['stages']):
            V('laziness', f'terminal-{term[0]}-overpull', c.pulled, s._pulled)
        if src['inf']:
            st('reach.infinite_source_terminal')
        return
    full = ref_prefix(chain, src, 40)
    if full is None:
        st('reference_budget_skip')
        n = 3
    else:
        n = min(len(full[0]) + 1, 10)
    for k in range(0, n + 1):
        ref = ref_prefix(chain, src, k)
        if ref is None:
            st('reference_budget_skip')
            continue
        ref_inner = ref_prefix.inner
        W = World(case)
        s = W.source(src)
        spec = W.B.spec(spec_recipe(chain))
        iter_ref.SPAWN['pulled'] = 0
        res = W.k.run_single(lambda: _pull(iter(W.G.glom(s, spec)), k))
        got_inner = iter_ref.SPAWN['pulled']
        digests.append(W.k.digest())
        st('evaluations')
        st('consumer_steps', k)
        if res[0] != 'ok':
            V('outputs', 'prefix-raised', _norm(ref[0]), canon.outcome(res, with_text=False))
            return
        out, exhausted = res[1]
        if _norm(out) != _norm(ref[0]) or exhausted != ref[1]:
            V('outputs', 'prefix', [_norm(ref[0]), ref[1]], [_norm(out), exhausted])
            return
        if s._pulled > ref[2] + slack_of(chain['stages']):
            V('laziness', 'prefix-overpull', {'k': k, 'reference_pulls': ref[2]}, s._pulled)
            return
        if got_inner > ref_inner + slack_of(chain['stages']):
            # flatten() hands on the items of a sub-stream as they are asked for
            V('laziness', 'sub-stream-overpull', {'k': k, 'reference_pulls': ref_inner}, got_inner)
            return
        if ref_inner:
            st('reach.lazy_sub_streams')
        if src['inf']:
            st('reach.infinite_source_prefix')


def _mode_alternate(case, V, st, digests):
    chain = case['chain']
    W = World(case)
    spec = W.B.spec(spec_recipe(chain))
    srcs = [W.source(s) for s in case['sources']]
    refs = []
    try:
        for s in case['sources']:
            c = iter_ref.Counting(s['items'], s['inf'], limit=REF_LIMIT)
            refs.append([iter_ref.pipeline(c, chain['sub'], chain['sentinel'], chain['stages']), c])
    except RuntimeError:
        st('reference_budget_skip')
        return

    def go():
        its = [iter(W.G.glom(srcs[0], spec)), iter(W.G.glom(srcs[1], spec))]
        outs = [[], []]
        done = [False, False]
        for who in case['order']:
            if done[who]:
                continue
            try:
                outs[who].append(next(its[who]))
            except StopIteration:
                done[who] = True
        return outs, done
    exp = [[], []]
    edone = [False, False]
    try:
        for who in case['order']:
            if edone[who]:
                continue
            try:
                exp[who].append(next(refs[who][0]))
            except StopIteration:
                edone[who] = True
    except RuntimeError:
        st('reference_budget_skip')
        return
    res = W.k.run_single(go)
    digests.append(W.k.digest())
    st('evaluations', 2)
    st('consumer_steps', len(case['order']))
    if res[0] != 'ok':
        V('outputs', 'alternate-raised', _norm(exp), canon.outcome(res, with_text=False))
        return
    outs, done = res[1]
    if _norm(outs) != _norm(exp) or done != edone:
        V('independence', 'alternating-iterators', [_norm(exp), edone], [_norm(outs), done])
    for i in (0, 1):
        if srcs[i]._pulled > refs[i][1].pulled + slack_of(chain['stages']):
            V('laziness', 'alternate-overpull', refs[i][1].pulled, srcs[i]._pulled)
    st('reach.two_live_iterators')


def _mode_builder(case, V, st, digests):
    chain = case['chain']
    cut = case['cut']
    base_stages = chain['stages'][:cut]
    W = World(case)
    G = W.G
    base = W.B.spec(spec_recipe(chain, stages=base_stages, terminal=None))
    src = dict(case['sources'][0], inf=False)

    def run(spec, stages):
        s = W.source(src)
        res = W.k.run_single(lambda: list(G.glom(s, spec)))
        ref = ref_prefix(chain, src, 10 ** 6, stages=stages)
        return res, ref
    r0, ref0 = run(base, base_stages)
    snap0 = canon.snapshot(base)
    repr0 = repr(base)
    derived = []
    for ex in case['extra']:
        d = base
        for stg in ex:
            d = W.B.iter_stage(d, spec_recipe(chain, stages=[stg], terminal=None)[3][0])
        derived.append((d, base_stages + ex))
        if not canon.snap_equal(snap0, canon.snapshot(base)) or repr(base) != repr0:
            V('immutability', 'base-changed-by-deriving/Iter', repr0, repr(base))
            return
    for d, stages in derived:
        rd, refd = run(d, stages)
        st('evaluations')
        if refd is None:
            continue
        if rd[0] != 'ok' or _norm(rd[1]) != _norm(refd[0]):
            V('outputs', 'derived-spec', _norm(refd[0]), canon.outcome(rd, with_text=False))
    r1, ref1 = run(base, base_stages)
    digests.append(W.k.digest())
    st('evaluations', 2)
    st('reach.builder_history')
    if not canon.snap_equal(snap0, canon.snapshot(base)) or repr(base) != repr0:
        V('immutability', 'base-changed-by-running-derivative/Iter', repr0, repr(base))
    if ref0 is not None:
        if r0[0] != 'ok' or _norm(r0[1]) != _norm(ref0[0]):
            V('outputs', 'base-spec', _norm(ref0[0]), canon.outcome(r0, with_text=False))
        elif r1[0] != 'ok' or _norm(r1[1]) != _norm(r0[1]):
            V('immutability', 'base-behaves-differently-after-deriving/Iter', _norm(r0[1]), canon.outcome(r1, with_text=False))


def _mode_fault(case, V, st, digests):
    chain = case['chain']
    src = dict(case['sources'][0])
    j = case['fault_at']
    site = 'o101.next' if case['fault_on'] == 'next' else 'o101.iter'
    nth = j if case['fault_on'] == 'next' else 0
    faults = {f'0:{site}#{nth}': {'cls': case['fault_cls']}}
    W = World(case, faults=faults)
    G = W.G
    spec = W.B.spec(spec_recipe(chain, terminal=None))
    s = W.source(src)
    healthy_src = dict(case['sources'][1], inf=False)
    s2 = W.source(healthy_src)
    state = {'out': [], 'exc': None}

    def go():
        try:
            it = iter(G.glom(s, spec))
            it2 = iter(G.glom(s2, spec))
            for _ in range(30):
                state['out'].append(next(it))
        except StopIteration:
            pass
        except BaseException as e:
            state['exc'] = e
        try:
            rest = list(it2)
        except NameError:
            rest = list(G.glom(s2, spec))
        return rest
    res = W.k.run_single(go)
    digests.append(W.k.digest())
    st('evaluations', 2)
    ref = ref_prefix(chain, src, 30)
    ref2 = ref_prefix(chain, healthy_src, 10 ** 6)
    if W.k.fired:
        st('fault.' + case['fault_cls'])
        st('reach.source_fault_' + case['fault_on'])
        e = state['exc']
        X = W.k.cat.cls(case['fault_cls'])
        if e is None:
            V('fault', 'source-fault-swallowed', case['fault_cls'], 'no exception')
        elif case['fault_on'] == 'next' and not isinstance(e, X):
            V('fault', 'source-fault-class-lost', case['fault_cls'], type(e).__name__)
        if ref is not None and _norm(state['out']) != _norm(ref[0][:len(state['out'])]):
            V('fault', 'outputs-not-a-prefix', _norm(ref[0]), _norm(state['out']))
    if ref2 is not None:
        if res[0] != 'ok' or _norm(res[1]) != _norm(ref2[0]):
            V('independence', 'other-iterator-affected-by-fault', _norm(ref2[0]), canon.outcome(res, with_text=False))


def _mode_abandon(case, V, st, digests):
    chain = case['chain']
    W = World(case)
    G = W.G
    spec = W.B.spec(spec_recipe(chain, terminal=None))
    src = case['sources'][0]
    src2 = dict(case['sources'][1], inf=False)
    s, s2 = W.source(src), W.source(src2)
    k = case['k']

    def go():
        it = iter(G.glom(s, spec))
        first, _ = _pull(it, k)
        del it
        gc.collect()
        return first, list(G.glom(s2, spec))
    ref = ref_prefix(chain, src, k)
    ref2 = ref_prefix(chain, src2, 10 ** 6)
    if ref is None or ref2 is None:
        st('reference_budget_skip')
        return
    res = W.k.run_single(go)
    digests.append(W.k.digest())
    st('evaluations', 2)
    st('consumer_steps', k)
    st('reach.abandoned_iterator')
    if res[0] != 'ok':
        V('outputs', 'abandon-raised', [_norm(ref[0]), _norm(ref2[0])], canon.outcome(res, with_text=False))
        return
    if _norm(res[1][0]) != _norm(ref[0]) or _norm(res[1][1]) != _norm(ref2[0]):
        V('independence', 'after-abandoned-iterator', [_norm(ref[0]), _norm(ref2[0])], _norm(list(res[1])))


def _mode_invoke(case, V, st, digests):
    ops = case['invoke_ops']
    cut = case['cut']
    W = World(case)
    G, B = W.G, W.B
    target = [1, 2, 3]

    def evalspec(r):
        if r[0] == 'T':
            return target
        if r[0] == 'fn':
            return len(target)
        raise NotImplementedError(r)

    def build_ops(inv, ops_):
        for kind, a, kw in ops_:
            if kind == 'C':
                inv = inv.constants(*a, **(kw or {}))
            elif kind == 'S':
                inv = inv.specs(*[B.spec(x) for x in a], **{k_: B.spec(v) for k_, v in (kw or {}).items()})
            else:
                inv = inv.star(args=B.spec(a) if a is not None else None, kwargs=None) if a is not None else inv
        return inv

    def expected(ops_):
        ops2 = [o for o in ops_ if not (o[0] == '*' and o[1] is None)]
        a, kw = iter_ref.invoke_model(ops2, evalspec)
        return (tuple(a), tuple(sorted(kw.items())))
    base = build_ops(G.Invoke(B.func('argpack')), ops[:cut])
    snap0, repr0 = canon.snapshot(base), repr(base)
    r0 = W.k.run_single(lambda: G.glom(target, base))
    full = build_ops(base, ops[cut:])
    other = build_ops(base, [['C', [99], {'a': 98}]])
    if not canon.snap_equal(snap0, canon.snapshot(base)) or repr(base) != repr0:
        V('immutability', 'base-changed-by-deriving/Invoke', repr0, repr(base))
    rf = W.k.run_single(lambda: G.glom(target, full))
    ro = W.k.run_single(lambda: G.glom(target, other))
    r1 = W.k.run_single(lambda: G.glom(target, base))
    digests.append(W.k.digest())
    st('evaluations', 4)
    st('reach.invoke_builder_history')
    if not canon.snap_equal(snap0, canon.snapshot(base)) or repr(base) != repr0:
        V('immutability', 'base-changed-by-running-derivative/Invoke', repr0, repr(base))
    for name, r, ops_ in (('base', r0, ops[:cut]), ('derived', rf, ops), ('base-again', r1, ops[:cut]),
                          ('other', ro, ops[:cut] + [['C', [99], {'a': 98}]])):
        try:
            exp = expected(ops_)
        except NotImplementedError:
            continue
        if r[0] != 'ok' or _norm(r[1]) != _norm(exp):
            V('outputs', f'invoke-{name}', _norm(exp), canon.outcome(r, with_text=False))


def run_seed(seed, tier):
    case = gen_case(seed, tier)
    r = run_case(case)
    out = {'runs': max(1, r['stats'].get('evaluations', 1)), 'events': 0, 'lines': 0, 'stats': r['stats'],
           'shapes': [r['shape']] if r['nontrivial'] else [], 'violations': [], 'harness_errors': [],
           'trace_digests': [r['digest']]}
    for v in r['violations']:
        out['violations'].append(dict(v, case=case))
    if seed % 500 == 0:
        out['sample'] = {'seed': seed, 'chain': case['chain'], 'mode': case['mode'], 'sources': case['sources']}
    return out
