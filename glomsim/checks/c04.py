"""C04 — exceptions keep their class; glom failures are GlomErrors; default is selective.

Per seed: one (target, spec) recipe rich in collaborator points; a fault-free discovery run lists
its N points; then EVERY point (capped) x a per-seed subset of the exception catalogue is executed
as a single-fault plan, plus seeded multi-fault plans.  Each plan is executed as differential twin
runs in cold state (made possible by determinism):
    (a) glom_debug=True    -> raises the origin error o
    (b) plain              -> raises e_b
    (c) default=<sentinel> with a drawn skip_exc
Oracle clauses: debug-identity, class-kept, args-kept, glomerror-ness, unrebuildable-identity,
base-exception-untouched, documented-subtype (site table, site kind read off the stack at the fault),
default-selectivity, status-agreement.
"""
import copy
import random

from .. import gen, simrun, canon, build, catalogue
from ..kernel import SimBudgetExceeded

PROP = 'C04'
LEVEL = 'fault_enumeration'
RULE = ('per seed one random type-directed spec over simulator-owned targets (+ templates that reach '
        'every translating site kind); fault-free discovery run lists its collaborator points; every '
        'point (<= 30 per item, sampled beyond) x 3 catalogue classes is run as a single-fault plan, '
        'plus up to 6 multi-fault plans; each plan = twin runs debug/plain/default x skip_exc; '
        'distinct = hash(spec, fault plan); non-trivial = at least one fault fired')
ASSUMPTIONS = [
    'site kind (P-get, item-get, attr-get, P-assign, P-delete, iterate, next, match-callable, '
    'check-validator, callable, wildcard) is read from glom frame names/locals on the stack; an '
    'unrecognised stack disables only the documented-subtype clause',
    'the same plan executed twice follows the same path (determinism self-test)',
    'StopIteration is not injected (PEP 479 turns it into RuntimeError inside generators: interpreter, not glom)',
]


def budget(tier):
    if tier == 'thorough':
        return {'seeds': 120000, 'wall': 900, 'chunk': 100}
    return {'seeds': 8000, 'wall': 200, 'chunk': 50}


SKIP_VARIANTS = [
    {'default': True},
    {'default': True, 'skip_exc': ['@X']},
    {'default': True, 'skip_exc': ['Exception']},
    {'default': True, 'skip_exc': ['LookupError']},
    {'default': True, 'skip_exc': ['ZeroDivisionError']},
    {'default': True, 'skip_exc': ['ValueError', 'GlomError']},
    {'skip_exc': ['@X']},
    {'default': True, 'skip_exc': ['PathAccessError']},
    {'default': True, 'skip_exc': []},
    {'skip_exc': []},
]


def _templates(ctx, rng):
    n = ctx.new_nid
    P = lambda mode='id': ['probe', ctx.new_pid(), mode]
    simd = lambda: {'t': 'simdict', 'n': n(), 'v': [['a', {'t': 'simdict', 'n': n(), 'v': [['b', rng.randint(0, 5)]]}],
                                                     ['c', {'t': 'simlist', 'n': n(), 'v': [1, 2, 3]}]]}
    simo = lambda: {'t': 'simobj', 'n': n(), 'v': [['a', {'t': 'simobj', 'n': n(), 'v': [['b', 1]]}], ['c', 2]]}
    siml = lambda: {'t': 'simlist', 'n': n(), 'v': [rng.randint(0, 6) for _ in range(rng.randint(1, 4))]}
    simi = lambda: {'t': 'simiter', 'n': n(), 'v': [rng.randint(0, 6) for _ in range(rng.randint(1, 4))]}
    t = [
        lambda: ['Match', P('true')],
        lambda: ['Match', ['dict', [[{'t': 'spec', 'v': ['type', 'object']}, P('true')]]], {'default': 'md'}],
        lambda: ['Check', None, {'validate': P('true')}],
        lambda: ['Check', P(), {'validate': P('true'), 'default': 'cd'}],
        lambda: ['tuple', [['Val', simi()], ['list', [P()]]]],
        lambda: ['tuple', [['Val', siml()], ['Iter', P(), None, [['map', P()], ['filter', P('true')]], ['all']]]],
        lambda: ['tuple', [['Val', simi()], ['Iter', None, None, [['chunked', 2]], ['first']]]],
        lambda: ['tuple', [['Val', simi()], ['Fold', ['T', 'T', []], P('const') + [0], ['fn', 'add']]]],
        lambda: ['tuple', [['Val', siml()], ['Sum']]],
        # reductions over a SUB-SPEC: what the sub-spec raises (also glom's own errors) is not the fold's
        lambda: ['tuple', [['Val', siml()], [rng.choice(['Sum', 'Flatten', 'Merge']), P()]]],
        lambda: ['tuple', [['Val', siml()], ['Fold', P(), ['fn', 'int'], ['fn', 'add']]]],
        lambda: ['tuple', [['Val', siml()], ['Group', ['dict', [[{'t': 'spec', 'v': P()}, ['list', [['T', 'T', []]]]]]]]]],
        lambda: ['tuple', [['Val', simd()], ['Assign', ['str', rng.choice(['a.b', 'a.z', 'c.0', 'q.r'])], 7,
                                             rng.choice([None, ['probe', ctx.new_pid(), 'fn', 'dict']])]]],
        lambda: ['tuple', [['Val', simo()], ['Assign', ['T', 'T', [['.', 'a'], ['.', 'b']]], {'t': 'spec', 'v': P()}]]],
        lambda: ['tuple', [['Val', simd()], ['Assign', ['T', 'T', [['[', 'a'], ['[', 'b']]], 1]]],
        lambda: ['tuple', [['Val', simd()], ['Delete', ['str', rng.choice(['a.b', 'c.1', 'a.zz'])], rng.random() < 0.3]]],
        lambda: ['tuple', [['Val', simo()], ['Delete', ['T', 'T', [['.', 'c']]], False]]],
        lambda: ['tuple', [['Val', simd()], ['Delete', ['T', 'T', [['[', 'a'], ['[', 'b']]], rng.random() < 0.3]]],
        lambda: ['tuple', [['Val', simd()], ['str', rng.choice(['*', 'a.*', '**', '*.b'])]]],
        lambda: ['tuple', [['Val', simd()], ['T', 'T', [['[', 'a'], ['[', 'b']]]]],
        lambda: ['tuple', [['Val', simo()], ['T', 'T', [['.', 'a'], ['.', 'b']]]]],
        lambda: ['tuple', [['Val', simd()], ['Path', ['a', 'b']]]],
        lambda: ['tuple', [['Val', simd()], ['Coalesce', [['str', 'a.b'], ['str', 'c.0']], {'default': 'cdef'}]]],
        lambda: ['Coalesce', [P(), P()], {'default_factory': P('tok')}],
        lambda: ['Coalesce', [P(), P('tok')], {'skip_exc': ['ValueError', 'UserErr', 'GlomError']}],
        lambda: ['Or', [['Match', P('false')], P()]],
        lambda: ['Switch', [[['Match', P('true')], P()], [['T', 'T', []], P('tok')]], {'default': 'sd'}],
        lambda: ['Call', P('tok'), {'t': 'list', 'v': [{'t': 'spec', 'v': P()}]}, None],
        lambda: ['Invoke', P('tok'), [['S', [P()], {}], ['C', [1], {}]]],
        lambda: ['Fill', ['lit', {'t': 'list', 'v': [{'t': 'spec', 'v': P()}, 3]}]],
        lambda: ['Fill', ['lit', {'t': rng.choice(['tuple', 'tuple', 'set', 'frozenset']), 'v': [{'t': 'spec', 'v': P('tok')}, 3]}]],
        lambda: ['Coalesce', [['str', 'never.there']], {'default': {'t': rng.choice(['tuple', 'set', 'list']), 'v': [{'t': 'spec', 'v': P('tok')}]}}],
        lambda: ['Call', ['fn', 'argpack'], {'t': 'list', 'v': [{'t': 'tuple', 'v': [{'t': 'spec', 'v': P()}, 1]}]}, None],
        lambda: ['tuple', [['Val', simd()], ['Merge', ['Val', {'t': 'list', 'v': [simd(), {'t': 'dict', 'v': [['z', 1]]}]}]]]],
        lambda: ['custom', ctx.new_pid(), P(), 'reenter'],
        lambda: ['tuple', [['Val', {'t': 'simnum', 'n': n(), 'v': rng.randint(1, 9)}],
                           ['T', 'T', [[rng.choice(['+', '-', '*', '/', '%', ':']), rng.randint(1, 3)]]]]],
        lambda: ['tuple', [['Val', {'t': 'dict', 'v': [['x', {'t': 'simnum', 'n': n(), 'v': 2}]]}],
                           ['Coalesce', [['T', 'T', [['[', 'x'], [':', 2], ['-', 1]]]], {'default': 'arith-default'}]]],
        # M-expressions compare the target: what its comparison operator raises is the caller's
        lambda: ['tuple', [['Val', {'t': 'simnum', 'n': n(), 'v': rng.randint(1, 9)}],
                           ['Match', ['M', 'M', rng.choice(['<', '>', '<=', '>=']), 5]]]],
        lambda: ['tuple', [['Val', {'t': 'simnum', 'n': n(), 'v': rng.randint(1, 9)}],
                           ['Or', [['M', 'M', rng.choice(['<', '>']), 5], P('tok')]]]],
        lambda: ['tuple', [['Val', {'t': 'simnum', 'n': n(), 'v': rng.randint(1, 9)}],
                           ['Switch', [[['M', 'M', '>', 3], P()], [['T', 'T', []], P('tok')]], {'default': 'sd'}]]],
        # Invoke with star arguments computed by a spec
        lambda: ['Invoke', ['fn', 'argpack'], [['*', ['probe', ctx.new_pid(), 'const', {'t': 'list', 'v': [1, 2]}], None],
                                               ['C', [3], {}]]],
        lambda: ['Invoke', ['fn', 'argpack'], [['C', [0], {}],
                                               ['*', None, ['probe', ctx.new_pid(), 'const', {'t': 'dict', 'v': [['a', 1]]}]]]],
    ]
    return rng.choice(t)()


def gen_item(seed, tier):
    rng = random.Random(seed)
    feats = gen.swarm_feats(rng, always=('path', 'struct', 'probe', 'coalesce'))
    feats -= {'nested'}
    ctx = gen.Ctx(rng, feats=feats, sim=rng.choice([0.6, 0.9]), fail=rng.choice([0.0, 0.1]),
                  mutate=rng.random() < 0.4, max_depth=rng.choice([2, 3, 4]))
    tgt = gen.gen_target(ctx, kind=rng.choice(['dict', 'dict', 'obj', 'dlist', 'list']))
    parts = []
    for i in range(rng.randint(1, 3)):
        ctx.bound = []
        parts.append([f'g{i}', gen.gen_spec(ctx, tgt, 0)[0]])
    for i in range(rng.randint(0, 2)):
        parts.append([f't{i}', _templates(ctx, rng)])
    rng.shuffle(parts)
    r = rng.random()
    if len(parts) == 1:
        spec = parts[0][1]
    elif r < 0.6:
        spec = ['dict', parts]
    elif r < 0.8:
        spec = ['Coalesce', [p[1] for p in parts], {'default': 'outer-default'}]
    else:
        spec = ['Fill', ['lit', {'t': 'list', 'v': [{'t': 'spec', 'v': p[1]} for p in parts]}]]
    pool = list(catalogue.EXC_ONLY) + list(catalogue.BASE_ONLY)
    special = ['UGlomKwOnly', 'UGlomArity', 'UserRewrite', 'UserKwOnly', 'UserArity', 'UGlomErr',
               'UGlomErrInit', 'UGlomMixed', 'UGlomRewrite', 'KeyboardInterrupt', 'UserBase', 'UserKeyErr',
               'UGlomLookup', 'OverflowError', 'ArithmeticError', 'ZeroDivisionError', 'StopIteration',
               'StopIteration', 'UnregisteredTarget']
    classes = rng.sample(pool, 2) + [rng.choice(special)]
    if rng.random() < 0.12:
        classes += ['UserErr', 'UserErrTwin']      # two unrelated classes with the same __name__
    knobs = simrun.draw_knobs(rng)
    knobs['glom_debug_env'] = rng.random() < 0.08      # GLOM_DEBUG=1 in the environment at import time
    return {'target': tgt, 'spec': spec, 'classes': classes, 'knobs': knobs}


# ------------------------------------------------------------------------------------------ runs

def _one_run(G, item, plan, mode, variant=None):
    """mode: 'a' debug, 'b' plain, 'c' default/skip_exc variant -> dict"""
    k = simrun.make_kernel(G, seed=0, faults=plan)
    B = build.Builder(G, k)
    target = B.value(item['target'])
    spec = B.spec(item['spec'])
    kw = {}
    sentinel = None
    skip_classes = None
    env_debug = bool(item['knobs'].get('glom_debug_env'))
    if mode == 'a':
        if not env_debug:       # (under GLOM_DEBUG=1 at import time, debug is the default)
            kw['glom_debug'] = True
    elif env_debug:
        kw['glom_debug'] = False
    if mode == 'c':
        if variant.get('default'):
            sentinel = {'sentinel': 'C04'}
            kw['default'] = sentinel
        if 'skip_exc' in variant:
            cl = tuple(k.cat.cls(n) for n in variant['skip_exc'])
            kw['skip_exc'] = cl if len(cl) != 1 else cl[0]     # [] -> the empty tuple: matches nothing
            skip_classes = cl
        else:
            skip_classes = (G.GlomError,)
    res = k.run_single(lambda: G.glom(target, spec, **kw))
    return {'res': res, 'k': k, 'B': B, 'sentinel': sentinel, 'skip': skip_classes}


def _related(o, inj, depth=0):
    """is the injected object reachable from o (itself, .exc, args, skipped lists)?"""
    if o is inj:
        return True
    if depth > 4 or not isinstance(o, BaseException):
        return False
    if depth == 0 and (o.__context__ is inj or o.__cause__ is inj):
        return True         # raised while the injected exception was being handled
    for a in list(getattr(o, 'args', ())) + [getattr(o, 'exc', None)] + list(getattr(o, 'skipped', []) or []):
        if a is inj:
            return True
        if isinstance(a, BaseException) and _related(a, inj, depth + 1):
            return True
    return False


def _real_bases(cls):
    return [c for c in cls.__mro__ if not c.__name__.startswith('GlomError.wrap(')]


def _rebuildable(o):
    try:
        type(o)(*o.args)
        return True
    except Exception:
        return False


def eval_plan(G, item, plan, variants, stats):
    viols = []
    A = _one_run(G, item, plan, 'a')
    Bb = _one_run(G, item, plan, 'b')
    ka, kb = A['k'], Bb['k']
    digests = [ka.digest(), kb.digest()]
    ra, rb = A['res'], Bb['res']
    for fk, cls, sk in ka.fired:
        stats['fault.' + cls] = stats.get('fault.' + cls, 0) + 1
        stats['reach.site_' + sk.get('kind', 'unknown')] = stats.get('reach.site_' + sk.get('kind', 'unknown'), 0) + 1
    if len(ka.fired) >= 2:
        stats['reach.second_fault_after_first'] = stats.get('reach.second_fault_after_first', 0) + 1
    if ka.fired and ra[0] == 'ok':
        stats['reach.fault_absorbed'] = stats.get('reach.fault_absorbed', 0) + 1

    def V(clause, detail, expected, observed):
        viols.append({'clause': clause, 'sig': f'{clause}/{detail}', 'expected': expected,
                      'observed': observed})

    if [f[0] for f in ka.fired] != [f[0] for f in kb.fired]:
        V('status-agreement', 'paths-diverge', [f[0] for f in ka.fired], [f[0] for f in kb.fired])
        return viols, digests
    if ra[0] != rb[0]:
        V('status-agreement', f'debug-{ra[0]}-plain-{rb[0]}:' + (type(rb[1]).__name__ if rb[0] == 'exc' else type(ra[1]).__name__),
          canon.outcome(ra, with_text=False), canon.outcome(rb, with_text=False))
    elif ra[0] == 'ok':
        ca, cb = canon.canon(ra[1], A['B'].idmap), canon.canon(rb[1], Bb['B'].idmap)
        if ca != cb:
            V('status-agreement', 'values-differ', ca, cb)
    o = ra[1] if ra[0] == 'exc' else None
    e_b = rb[1] if rb[0] == 'exc' else None
    last_a = ka.fired[-1] if ka.fired else None
    inj_a = ka.fault_objs.get(last_a[0]) if last_a else None
    inj_b = kb.fault_objs.get(last_a[0]) if last_a else None
    xname = last_a[1] if last_a else 'none'
    if o is not None and e_b is not None:
        is_base_only = not isinstance(o, Exception)
        # ---- class kept
        lost = [c.__name__ for c in _real_bases(type(o)) if not isinstance(e_b, c)]
        if lost:
            V('class-kept', type(o).__name__, [c.__name__ for c in _real_bases(type(o))],
              {'raised': type(e_b).__name__, 'mro': canon.mro_names(type(e_b)), 'args': canon.canon(list(e_b.args))[1][:3] if e_b.args else []})
        else:
            # ---- args kept
            ca, cb = canon.canon(list(o.args), A['B'].idmap), canon.canon(list(e_b.args), Bb['B'].idmap)
            if ca != cb:
                V('args-kept', type(o).__name__, ca, cb)
            # ---- GlomError-ness
            if is_base_only:
                if inj_a is not None and o is inj_a and e_b is not inj_b:
                    V('base-exception-untouched', type(o).__name__, 'the injected object itself', canon.outcome(rb, with_text=False))
                if isinstance(e_b, G.GlomError) and not isinstance(o, G.GlomError):
                    V('base-exception-untouched', type(o).__name__ + '-wrapped', 'not wrapped', canon.mro_names(type(e_b)))
            elif _rebuildable(o):
                if not isinstance(e_b, G.GlomError):
                    V('glomerror-ness', type(o).__name__, 'a GlomError (class can be rebuilt from args)',
                      canon.mro_names(type(e_b)))
            else:
                if inj_a is not None and o is inj_a and e_b is not inj_b:
                    V('unrebuildable-identity', type(o).__name__, 'the original object (cannot be rebuilt)',
                      canon.outcome(rb, with_text=False))
        # ---- debug identity + documented subtype (site table)
        if last_a is not None and inj_a is not None and _related(o, inj_a):
            sk = last_a[2]
            kind = sk.get('kind', 'unknown')
            X = type(inj_a)
            exp = _expected_translation(G, kind, X, sk)
            if issubclass(X, StopIteration) and sk.get('lazy_stream'):
                exp = None          # (PEP 479 inside Iter's own generator: Python's rule, not a translation by glom)
            if exp is not None:
                want, chk = exp
                if want == 'self':
                    direct_wrap = getattr(o, 'exc', None) is inj_a
                    if direct_wrap:
                        V('documented-subtype', f'{kind}/{xname}/translated-as-{type(o).__name__}',
                          'no translation at this site', type(o).__name__)
                    elif o is not inj_a and canon.canon_exc(o) == canon.canon_exc(inj_a):
                        V('debug-identity', f'{kind}/{xname}', 'the original exception object', 'an equal copy')
                    elif o is not inj_a and (o.__context__ is inj_a or o.__cause__ is inj_a):
                        # glom_debug=True: another exception was raised from the handler of the injected
                        # one at a site where glom documents no translation
                        V('documented-subtype', f'{kind}/{xname}/replaced-by-{type(o).__name__}',
                          'no translation at this site', type(o).__name__)
                else:
                    if o is inj_a:
                        V('documented-subtype', f'{kind}/{xname}/untranslated', want, type(o).__name__)
                    elif getattr(o, 'exc', None) is inj_a or (inj_a in getattr(o, 'args', ())):
                        if type(o).__name__ != want and not (want == 'TypeError' and type(o) is TypeError):
                            V('documented-subtype', f'{kind}/{xname}/as-{type(o).__name__}', want, type(o).__name__)
                        elif not isinstance(o, G.GlomError) and want != 'TypeError':
                            V('documented-subtype', f'{kind}/{xname}/not-glomerror', want, canon.mro_names(type(o)))
                        elif chk == 'part_idx' and 'part_idx' in sk and getattr(o, 'part_idx', None) != sk['part_idx']:
                            V('documented-subtype', f'{kind}/part_idx', sk['part_idx'], getattr(o, 'part_idx', None))
    # ---- (c) selective default
    for variant in variants:
        v = dict(variant)
        if 'skip_exc' in v:
            v['skip_exc'] = [xname if n == '@X' else n for n in v['skip_exc']]
            if 'none' in v['skip_exc']:
                v['skip_exc'] = ['ValueError']
        C = _one_run(G, item, plan, 'c', v)
        digests.append(C['k'].digest())
        rc = C['res']
        vname = ('default' if v.get('default') else 'nodefault') + ':' + ('+'.join(v['skip_exc']) or '<empty-tuple>' if 'skip_exc' in v else '<GlomError>')
        if o is None:
            if rc[0] != 'ok':
                V('default-selectivity', f'raised-where-plain-succeeds/{vname}', 'ok', canon.outcome(rc, with_text=False))
            continue
        # classes are per instance G, shared by runs a and c
        matches = isinstance(o, C['skip'])
        if matches:
            if rc[0] != 'ok':
                V('default-selectivity', f'not-replaced/{type(o).__name__}/{vname}', 'the default object',
                  canon.outcome(rc, with_text=False))
            elif v.get('default') and rc[1] is not C['sentinel']:
                V('default-selectivity', f'default-not-identical/{vname}', 'the default object itself', canon.canon(rc[1]))
            elif not v.get('default') and rc[1] is not None:
                V('default-selectivity', f'none-expected/{vname}', None, canon.canon(rc[1]))
        else:
            if rc[0] == 'ok':
                V('default-selectivity', f'replaced-unmatched/{type(o).__name__}/{vname}',
                  'propagates (does not match skip_exc at its origin)', canon.canon(rc[1]))
            elif e_b is not None:
                na, nb = canon.mro_names(type(rc[1])), canon.mro_names(type(e_b))
                if na != nb:
                    V('default-selectivity', f'propagates-differently/{vname}', nb, na)
    return viols, digests


def _expected_translation(G, kind, X, sk):
    """-> (expected class name | 'self', extra check) or None when the table has no entry"""
    if not issubclass(X, Exception):
        return ('self', None)
    if kind == 'P-get':
        return ('PathAccessError', 'part_idx')
    if kind == 'item-get':
        if issubclass(X, (KeyError, IndexError, TypeError)):
            return ('PathAccessError', 'part_idx')
        return ('self', None)
    if kind == 'attr-get':
        if issubclass(X, AttributeError):
            return ('PathAccessError', 'part_idx')
        return ('self', None)
    if kind == 'P-assign':
        return ('PathAssignError', None)
    if kind == 'P-delete':
        if sk.get('ignore_missing'):
            return None
        return ('PathDeleteError', None)
    if kind == 'item-delete':
        if sk.get('ignore_missing'):
            return None
        return ('PathDeleteError', None) if issubclass(X, (KeyError, IndexError)) else ('self', None)
    if kind == 'attr-delete':
        if sk.get('ignore_missing'):
            return None
        return ('PathDeleteError', None) if issubclass(X, AttributeError) else ('self', None)
    if kind in ('item-assign', 'attr-assign'):
        return ('self', None)
    if kind == 'iterate':
        return ('TypeError', None)
    if kind == 'match-callable':
        return ('MatchError', None)
    if kind == 'check-validator':
        return None          # CheckError carries only the repr of the cause; nothing to compare by identity
    if kind == 'arith':
        if issubclass(X, (TypeError, ZeroDivisionError)):
            return ('PathAccessError', 'part_idx')
        return ('self', None)
    if kind in ('next', 'callable'):
        return ('self', None)
    return None


# ---------------------------------------------------------------- failures detected by glom itself

# (target recipe, spec recipe, documented class): no fault is injected -- glom itself finds the problem
DETECTED = [
    ({'t': 'dict', 'v': [['a', 1]]}, ['str', 'zz'], 'PathAccessError'),
    ({'t': 'dict', 'v': [['a', 1]]}, ['T', 'T', [['[', 'zz']]], 'PathAccessError'),
    ({'t': 'obj', 'v': [['a', 1]]}, ['T', 'T', [['.', 'zz']]], 'PathAccessError'),
    ({'t': 'dict', 'v': [['a', 1]]}, ['Coalesce', [['str', 'zz']], {}], 'CoalesceError'),
    ({'t': 'dict', 'v': [['a', 1]]}, ['Coalesce', [['str', 'zz'], ['str', 'yy.x']], {}], 'CoalesceError'),
    ({'t': 'dict', 'v': [['a', {'t': 'dict', 'v': [['b', 1]]}]]}, ['tuple', [['str', 'a'], ['Coalesce', [['T', 'T', [['[', 'q']]]], {}]]], 'CoalesceError'),
    ({'t': 'list', 'v': [1, 2]}, ['Check', None, {'equal_to': 5}], 'CheckError'),
    ({'t': 'dict', 'v': [['a', {'t': 'list', 'v': [1]}]]}, ['tuple', [['str', 'a'], ['Check', None, {'one_of': {'t': 'tuple', 'v': [1, 2]}}]]], 'CheckError'),
    ({'t': 'dict', 'v': [['a', 1]]}, ['Check', None, {'one_of': {'t': 'tuple', 'v': ['x', 'y']}}], 'CheckError'),
    (1, ['Check', None, {'type': 'str'}], 'CheckError'),
    (5, ['list', [['T', 'T', []]]], 'UnregisteredTarget'),
    (5, ['Sum'], 'FoldError'),
    (None, ['Flatten'], 'FoldError'),
    ({'t': 'dict', 'v': [['a', 1]]}, ['Match', ['dict', [['a', ['type', 'str']]]]], 'MatchError'),
    ('abc', ['Match', ['Regex', '\\d+']], 'MatchError'),
    ({'t': 'list', 'v': [1]}, ['Match', ['lit', {'t': 'list', 'v': []}]], 'MatchError'),
    ({'t': 'dict', 'v': [['a', {'t': 'tuple', 'v': [1, 2]}]]}, ['Assign', ['str', 'a.0'], 5, None], 'UnregisteredTarget'),
    ({'t': 'dict', 'v': [['a', {'t': 'list', 'v': [1]}]]}, ['Assign', ['str', 'a.5'], 9, None], 'PathAssignError'),
    ({'t': 'dict', 'v': [['a', 1]]}, ['Delete', ['str', 'zz'], False], 'PathDeleteError'),
    ({'t': 'dict', 'v': [['a', 1]]}, ['Delete', ['str', 'zz.y'], False], 'PathAccessError'),
]


def eval_detected(G, idx):
    """-> violations for battery entry idx: the failure leaves glom() as the documented GlomError
    subtype, and a top-level default replaces it (it IS a GlomError at its origin)"""
    tgt_r, spec_r, want = DETECTED[idx]
    viols = []
    cls = getattr(G, want)
    for variant in ('plain', 'default'):
        k = simrun.make_kernel(G, seed=0)
        B = build.Builder(G, k)
        target, spec = B.value(tgt_r), B.spec(spec_r)
        sentinel = {'sentinel': 'C04'}
        kw = {'default': sentinel} if variant == 'default' else {}
        res = k.run_single(lambda: G.glom(target, spec, **kw))
        if variant == 'plain':
            if res[0] != 'exc' or not isinstance(res[1], cls) or not isinstance(res[1], G.GlomError):
                viols.append({'clause': 'documented-subtype', 'sig': f'documented-subtype/detected-by-glom/{want}',
                              'expected': want, 'observed': canon.outcome(res, with_text=False)})
        elif res[0] != 'ok' or res[1] is not sentinel:
            viols.append({'clause': 'default-selectivity', 'sig': f'default-selectivity/detected-by-glom-not-replaced/{want}',
                          'expected': 'the default object', 'observed': canon.outcome(res, with_text=False)})
    return viols


# ------------------------------------------------------------------------------------------ driver

def run_case(case):
    """case = {'item', 'plan', 'variants', 'pre_plans'?} -> re-execute one plan (replay); pre_plans are
    fault plans executed before it on the same instance (a fault SEQUENCE across calls)"""
    G = simrun.make_instance(case['item']['knobs'])
    stats = {}
    if 'detected' in case:
        viols = eval_detected(G, case['detected'])
        d = simrun.jhash(['detected', case['detected']])
        for v in viols:
            v['digest'] = d
        return {'violations': viols, 'digest': d, 'stats': stats}
    for pre in case.get('pre_plans') or []:
        _one_run(G, case['item'], pre, 'b')
    # everything the same private instance went through before this plan (what glom remembers from
    # earlier calls -- caches, generated classes -- is part of the schedule)
    for h in case.get('history') or []:
        try:
            if h == 'discovery':
                _one_run(G, case['item'], {}, 'b')
            else:
                eval_plan(G, case['item'], h[0], h[1], {})
        except SimBudgetExceeded:
            pass
    viols, digests = eval_plan(G, case['item'], case['plan'], case['variants'], stats)
    d = simrun.jhash(digests)
    for v in viols:
        v['digest'] = d
    return {'violations': viols, 'digest': d, 'stats': stats}


def shrink_candidates(case):
    """drop faults from the plan first, then variants"""
    if 'detected' in case:
        return
    plan = case['plan']
    if len(plan) > 1:
        for k_ in list(plan):
            c = copy.deepcopy(case)
            del c['plan'][k_]
            yield c
    if len(case['variants']) > 1:
        for i in range(len(case['variants'])):
            c = copy.deepcopy(case)
            del c['variants'][i]
            yield c
    hist = case.get('history') or []
    if hist:
        c = copy.deepcopy(case)
        c['history'] = []
        yield c
        n = len(hist)
        step = n // 2
        while step >= 1:
            for i in range(0, n, step):
                c = copy.deepcopy(case)
                del c['history'][i:i + step]
                yield c
            step //= 2


def run_seed(seed, tier):
    rng = random.Random(seed ^ 0xA5A5A5)
    item = gen_item(seed, tier)
    G = simrun.make_instance(item['knobs'])
    stats = {}
    out = {'runs': 0, 'events': 0, 'lines': 0, 'stats': stats, 'shapes': [], 'violations': [],
           'harness_errors': [], 'trace_digests': []}
    # discovery
    try:
        D = _one_run(G, item, {}, 'b')
    except SimBudgetExceeded:
        return dict(out, runs=1, stats={'budget_exceeded': 1})
    out['runs'] += 1
    if D['res'][0] == 'exc' and isinstance(D['res'][1], RecursionError):
        return dict(out, stats={'skipped_recursive_item': 1})
    points = [(e[1], e[2]) for e in D['k'].log if e[0] == 0 and e[3] in ('call', 'get', 'set', 'del', 'iter', 'next', 'glomit', 'arith')]
    stats['points_discovered'] = len(points)
    stats['items'] = 1
    if item['knobs'].get('glom_debug_env'):
        stats['reach.glom_debug_from_environment'] = 1
    cap = 30 if tier == 'quick' else 60
    if len(points) > cap:
        idx = sorted(rng.sample(range(len(points)), cap))
        stats['points_sampled_down'] = 1
    else:
        idx = list(range(len(points)))
    plans = [{}]
    for i in idx:
        site, nth = points[i]
        for cls in item['classes']:
            plans.append({f'0:{site}#{nth}': {'cls': cls}})
    # multi-fault plans: first absorbable, later ones elsewhere
    for _ in range(6 if points else 0):
        n = rng.choice([2, 2, 3])
        chosen = rng.sample(points, min(n, len(points)))
        plan = {}
        for j, (site, nth) in enumerate(chosen):
            cls = rng.choice(['UGlomErr', 'UGlomErrInit', 'ValueError', 'KeyError']) if j < len(chosen) - 1 \
                else rng.choice(item['classes'])
            plan[f'0:{site}#{nth}'] = {'cls': cls}
        plans.append(plan)
    hist = ['discovery']
    for plan in plans:
        variants = rng.sample(SKIP_VARIANTS, 2)
        try:
            viols, digests = eval_plan(G, item, plan, variants, stats)
        except SimBudgetExceeded:
            stats['budget_exceeded'] = stats.get('budget_exceeded', 0) + 1
            hist.append([plan, variants])
            continue
        out['runs'] += 2 + len(variants)
        out['trace_digests'].append(simrun.jhash(digests))
        if plan:
            out['shapes'].append(simrun.jhash([item['spec'], plan]))
        d = simrun.jhash(digests)
        for v in viols:
            v['digest'] = d
            if len(out['violations']) < 12:
                out['violations'].append(dict(v, case={'prop': PROP, 'seed': seed, 'item': item, 'plan': plan,
                                                       'variants': variants, 'history': list(hist)}))
        hist.append([plan, variants])
    # ---- fault sequence across calls: an instance of a class that cannot be rebuilt, then one of the
    # same class that can (what was learnt from the first must not be applied to the second)
    if points:
        site, nth = rng.choice(points)
        key = f'0:{site}#{nth}'
        bad, good = {key: {'cls': 'UserFlaky', 'variant': 'bad'}}, {key: {'cls': 'UserFlaky'}}
        variants = rng.sample(SKIP_VARIANTS, 1)
        try:
            for plan in (bad, good, bad, good):
                viols, digests = eval_plan(G, item, plan, variants, stats)
                out['runs'] += 3
                d = simrun.jhash(digests)
                for v in viols:
                    v['digest'] = d
                    out['violations'].append(dict(v, case={'prop': PROP, 'seed': seed, 'item': item, 'plan': plan,
                                                           'variants': variants, 'history': list(hist)}))
                hist.append([plan, variants])
            stats['reach.fault_sequence_across_calls'] = 1
        except SimBudgetExceeded:
            pass
    if seed % 20 == 0:
        # the fault-free battery, on this seed's instance (its knobs, and whatever the plans above left behind)
        for idx in range(len(DETECTED)):
            for v in eval_detected(G, idx):
                v['digest'] = simrun.jhash(['detected', idx])
                out['violations'].append(dict(v, case={'prop': PROP, 'seed': seed, 'item': {'knobs': item['knobs']},
                                                       'detected': idx}))
        stats['detected_by_glom_battery'] = len(DETECTED)
    out['events'] = len(D['k'].log) * len(plans) * 4
    if seed % 100 == 0:
        out['sample'] = {'seed': seed, 'spec': item['spec'], 'classes': item['classes'],
                         'n_points': len(points), 'n_plans': len(plans), 'example_plan': plans[min(1, len(plans) - 1)]}
    # cap the number of raw violations carried home per seed
    out['violations'] = out['violations'][:12]
    return out
