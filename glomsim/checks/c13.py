"""C13 — handlers are chosen by nearest registered type, immediately and in isolation.

System: a private instance per history (the process-wide default registry is part of the state);
the iteration order of the ``set`` of known types inside ``register_op`` is owned by the simulator
(knob set_perm).  Histories of registry operations over a per-run class family: register / lookup /
drop memo / new Glommer, on the default registry, default Glommers and bare Glommers.
Oracle: reference registry model (models/registry.py): the observed handler must belong to a
minimal eligible registered type; where several unrelated minimal types exist, the choice must be
stable across history variants (registration order permuted, other set orders, intermediate
look-ups removed + memo dropped).  Plus: a register() is visible to the very next look-up; tags never
cross registries; a fresh default Glommer agrees with a cold module-level glom on a fixed battery.
"""
import abc
import copy
import random
from collections import OrderedDict

from .. import simrun, canon
from ..kernel import SimBudgetExceeded
from ..models import registry as regmodel

PROP = 'C13'
LEVEL = 'exploration'
RULE = ('seeded histories (<= 14 registrations, interleaved look-ups, memo drops, new Glommers) over a '
        'per-run class family (chains, diamonds, mixins, ABC-registered virtual subclasses, duck-typed '
        'iterables, classes with and without __dict__, subclasses of dict/list/tuple/OrderedDict) on '
        '{default registry, Glommer(), bare Glommer}; a third of the histories are built from templates '
        'known to be order-sensitive; each history is re-run in 3 variants (registration order permuted, '
        'another known_types set order, no intermediate look-ups + memo dropped); distinct = hash(family, '
        'history); non-trivial = >= 2 registrations touching one inheritance chain and >= 1 look-up of a '
        'subclass instance')
ASSUMPTIONS = [
    'handler identity is observed through TargetRegistry.get_handler (the single look-up path of all '
    'glom operations) and, for tagged handlers, confirmed end-to-end through the public API',
    'auto-discovery functions (which default handler a type gets for an op) are taken from the real '
    'registry: they are bookkeeping, not resolution policy',
    'models/registry.py encodes "nearest registered type"; unrelated minimal candidates are not ranked, '
    'only required to be stable',
]

OPS = ['get', 'iterate', 'keys', 'assign', 'delete']
OPS_ALL = OPS + ['render']       # 'render': an operation added by the user with register_op()


def budget(tier):
    if tier == 'thorough':
        return {'seeds': 120000, 'wall': 900, 'chunk': 100}
    return {'seeds': 8000, 'wall': 200, 'chunk': 50}


# ------------------------------------------------------------------------------------ family

BUILTIN_BASES = {'dict': dict, 'list': list, 'tuple': tuple, 'OrderedDict': OrderedDict, 'object': object}


def gen_family(rng):
    classes = []
    names = []

    def add(name, bases, slots=False, it=False):
        classes.append({'name': name, 'bases': bases, 'slots': slots, 'iter': it})
        names.append(name)
    # a chain
    n = rng.randint(2, 4)
    for i in range(n):
        add(f'A{i}', [f'A{i - 1}'] if i else ['object'], slots=False, it=(i == 1 and rng.random() < 0.3))
    # a slotted chain
    if rng.random() < 0.6:
        add('S0', ['object'], slots=True)
        add('S1', ['S0'], slots=True)
    # mixin + diamond
    if rng.random() < 0.7:
        add('M', ['object'], it=rng.random() < 0.3)
        add('D', [f'A{min(1, n - 1)}', 'M'])
        add('D2', ['D'])
    if rng.random() < 0.4:
        add('B', ['A0'])
        add('DD', [f'A{min(1, n - 1)}', 'B'] if n > 1 else ['B'])
    # builtin subclasses
    for b in rng.sample(['dict', 'list', 'tuple', 'OrderedDict'], rng.randint(1, 3)):
        nm = 'My' + b.capitalize()
        add(nm, [b], slots=False)
        if rng.random() < 0.5 and b != 'OrderedDict':
            add('Slot' + b.capitalize(), [b], slots=True)
        if rng.random() < 0.3:
            add(nm + 'Sub', [nm])
    # duck iterable
    if rng.random() < 0.5:
        add('It', ['object'], it=True)
    virtual = []
    if rng.random() < 0.5:
        virtual.append(['V', rng.sample(names, min(len(names), rng.randint(1, 2)))])
    return {'classes': classes, 'virtual': virtual}


def build_family(fam):
    env = dict(BUILTIN_BASES)
    for c in fam['classes']:
        ns = {}
        if c['slots']:
            ns['__slots__'] = ()
        if c['iter']:
            ns['__iter__'] = lambda self: iter(('it1', 'it2'))
        ns['__repr__'] = lambda self, _n=c['name']: f'<{_n}>'
        try:
            env[c['name']] = type(c['name'], tuple(env[b] for b in c['bases']), ns)
        except TypeError:
            # layout conflict (e.g. two slotted bases): fall back to the first base only
            env[c['name']] = type(c['name'], (env[c['bases'][0]],), ns)
    for vname, regs in fam['virtual']:
        V = abc.ABCMeta(vname, (object,), {})
        for r in regs:
            if r in env:
                V.register(env[r])
        env[vname] = V
    return env


def make_obj(cls):
    if issubclass(cls, dict):
        o = cls()
        dict.__setitem__(o, 'x', 'item:x')
        return o
    if issubclass(cls, list):
        return cls(['e0', 'e1'])
    if issubclass(cls, tuple):
        return cls(('e0', 'e1'))
    o = cls()
    return o


# ------------------------------------------------------------------------------------ history

def gen_case(seed, tier):
    rng = random.Random(seed)
    fam = gen_family(rng)
    names = [c['name'] for c in fam['classes']]
    regable = names + [v[0] for v in fam['virtual']] + ['dict', 'list', 'object'] * 0
    knobs = simrun.draw_knobs(rng)
    ops = []
    regs_avail = ['default', 'g0', 'b0']
    tagn = [0]

    def reg_op(tname=None, reg=None, exact=None, hops=None):
        tagn[0] += 1
        hops = hops or rng.sample(OPS_ALL if custom_op[0] else OPS, rng.randint(1, 2))
        if tname is None and rng.random() < 0.06:
            tname = rng.choice(['dict', 'list'])        # a builtin registered again, with the user's handler
        return {'op': 'register', 'reg': reg or rng.choice(regs_avail), 'type': tname or rng.choice(regable),
                'handlers': {o: ('False' if rng.random() < 0.12 else f'h{tagn[0]}{o[0]}') for o in hops},
                'exact': (rng.random() < 0.25) if exact is None else exact}

    # now and then the target is a plain builtin instance, or a CLASS OBJECT (an instance of `type`:
    # what is registered for its instances says nothing about the class itself)
    extra_targets = ['dict', 'list'] + ['cls:' + n_ for n_ in names[:2]]

    def lookup(reg=None, cls=None, lop=None):
        if cls is None and rng.random() < 0.1:
            cls = rng.choice(extra_targets)
        return {'op': 'lookup', 'reg': reg or rng.choice(regs_avail), 'cls': cls or rng.choice(names),
                'lop': lop or rng.choice(OPS_ALL if custom_op[0] else OPS)}
    custom_op = [rng.random() < 0.2]      # does this history use an operation added with register_op()?
    template = rng.random() < 0.4
    if template:
        t = rng.choice(['mixin-order', 'structural-sibling', 'exact-then-sub', 'reregister', 'builtin-sub', 'switched-off', 'builtin-reregistered'])
        reg = rng.choice(['default', 'g0', 'b0'])
        if t == 'mixin-order' and 'D2' in names:
            base = [c for c in fam['classes'] if c['name'] == 'D'][0]['bases'][0]
            seq = [base, 'D', 'M', 'A0']
            if rng.random() < 0.5:
                rng.shuffle(seq)
            for tn in seq:
                ops.append(reg_op(tn, reg, exact=False, hops=['get']))
                if rng.random() < 0.4:
                    ops.append(lookup(reg, 'D2', 'get'))
            ops.append(lookup(reg, 'D2', 'get'))
            ops.append(lookup(reg, 'D', 'get'))
        elif t == 'structural-sibling':
            tn = rng.choice([n_ for n_ in names if n_.startswith(('A', 'My'))])
            ops.append(reg_op(tn, reg, exact=False, hops=[rng.choice(['get', 'assign', 'delete', 'iterate'])]))
            subs = [c['name'] for c in fam['classes'] if tn in c['bases']] or [tn]
            ops.append(lookup(reg, rng.choice(subs), list(ops[-1]['handlers'])[0]))
        elif t == 'exact-then-sub':
            tn = rng.choice(names)
            ops.append(reg_op(tn, reg, exact=True, hops=['get']))
            subs = [c['name'] for c in fam['classes'] if tn in c['bases']] or [tn]
            ops.append(lookup(reg, rng.choice(subs), 'get'))
            ops.append(lookup(reg, tn, 'get'))
        elif t == 'reregister':
            tn = rng.choice(names)
            ops.append(reg_op(tn, reg, exact=False, hops=['get']))
            ops.append(lookup(reg, tn, 'get'))
            ops.append(reg_op(tn, reg, exact=rng.random() < 0.5, hops=['get']))
            ops.append(lookup(reg, tn, 'get'))
        elif t == 'builtin-reregistered':
            # a handler registered for a builtin container type is used for plain instances of it
            bt = rng.choice(['dict', 'list'])
            bop = rng.choice(['get', 'get', 'iterate', 'assign', 'delete'])
            ops.append(reg_op(bt, reg, exact=rng.random() < 0.5, hops=[bop]))
            ops[-1]['handlers'][bop] = f'h{tagn[0]}{bop[0]}'       # (a callable, never False, here)
            ops.append(lookup(reg, bt, bop))
        elif t == 'switched-off':
            # an operation switched off with False stays off when the type is registered again for
            # another operation (only an explicit handler replaces an earlier one)
            tn = rng.choice(names)
            off = rng.choice(OPS)
            ops.append(reg_op(tn, reg, exact=False, hops=[off]))
            ops[-1]['handlers'][off] = 'False'
            other = rng.choice([o for o in OPS if o != off])
            ops.append(reg_op(tn, reg, exact=rng.random() < 0.3, hops=[other]))
            subs = [c['name'] for c in fam['classes'] if tn in c['bases']] or [tn]
            ops.append(lookup(reg, tn, off))
            ops.append(lookup(reg, rng.choice(subs), off))
        else:
            subs = [n_ for n_ in names if n_.startswith(('My', 'Slot'))]
            if subs:
                for _ in range(3):
                    ops.append(lookup(reg, rng.choice(subs), rng.choice(['assign', 'delete', 'get', 'keys'])))
    for _ in range(rng.randint(2, 14)):
        r = rng.random()
        if r < 0.4:
            ops.append(reg_op())
        elif r < 0.85:
            ops.append(lookup())
        elif r < 0.92:
            if custom_op[0] and rng.random() < 0.5:
                # (re-)declare an operation: exact=True only says that the types known SO FAR are
                # taken exactly; later non-exact registrations cover their subclasses as ever
                ops.append({'op': 'register_op', 'reg': rng.choice(regs_avail),
                            'name': 'render', 'exact': rng.random() < 0.6})
            else:
                ops.append({'op': 'drop', 'reg': rng.choice(regs_avail)})
        else:
            gid = f'g{len(regs_avail)}'
            ops.append({'op': 'new_glommer', 'id': gid, 'defaults': rng.random() < 0.6})
            regs_avail.append(gid)
    return {'prop': PROP, 'seed': seed, 'knobs': knobs, 'family': fam, 'ops': ops,
            'perm_seed': rng.randint(0, 10 ** 6), 'alt_set_perm': (knobs['set_perm'] + rng.randint(1, 11)) % 12}


# ------------------------------------------------------------------------------------ world

class World:
    def __init__(self, case, set_perm=None):
        kn = dict(case['knobs'])
        if set_perm is not None:
            kn['set_perm'] = set_perm
        self.G = G = simrun.make_instance(kn)
        self.k = simrun.make_kernel(G, seed=0)
        self.env = build_family(case['family'])
        self.objs = {c['name']: make_obj(self.env[c['name']]) for c in case['family']['classes']}
        self.objs['dict'], self.objs['list'] = make_obj(dict), make_obj(list)
        for c in case['family']['classes'][:2]:
            self.objs['cls:' + c['name']] = self.env[c['name']]
            self.env['cls:' + c['name']] = type(self.env[c['name']])
        core = G.core
        self.TR = core.TargetRegistry
        self.real = {'default': core._DEFAULT_SCOPE[self.TR]}
        self.glommers = {}
        self.models = {}
        self.models['default'] = self._model(defaults=True, with_ext=True)
        self.add_glommer('g0', True)
        self.add_glommer('b0', False)
        self.handlers = {}

    def _model(self, defaults, with_ext):
        core = self.G.core
        import operator
        real_default = core._DEFAULT_SCOPE[self.TR]
        auto_all = real_default._op_auto_map
        builtin_auto = {op: auto_all[op] for op in ('iterate', 'get') if op in auto_all}
        dts = []
        if defaults:
            dts = [(object, {}), (dict, {'get': operator.getitem}), (dict, {'keys': dict.keys}),
                   (list, {'get': core._get_sequence_item}), (tuple, {'get': core._get_sequence_item}),
                   (OrderedDict, {'get': operator.getitem}), (OrderedDict, {'keys': OrderedDict.keys}),
                   (core._AbstractIterable, {'iterate': iter}),
                   (core._ObjStyleKeys, {'keys': core._ObjStyleKeys.get_keys})]
        m = regmodel.RegModel(self.G, builtin_auto, dts, obj_style_keys=core._ObjStyleKeys)
        if with_ext:
            for op in ('assign', 'delete'):
                if op in auto_all:
                    m.register_op(op, auto_all[op])
        return m

    def add_glommer(self, gid, defaults):
        gl = self.G.Glommer(register_default_types=defaults)
        self.glommers[gid] = gl
        self.real[gid] = gl.scope[self.TR]
        self.models[gid] = self._model(defaults=defaults, with_ext=True)

    def handler(self, op, tag):
        if tag == 'False':
            return False        # "this type (and, unless exact, its subclasses) does not support op"
        key = (op, tag)
        if key in self.handlers:
            return self.handlers[key]
        k = self.k
        if op == 'get':
            def h(o, key_):
                k.event('h:' + tag, 'handler', op)
                return ('get', tag)
        elif op == 'iterate':
            def h(o):
                k.event('h:' + tag, 'handler', op)
                return iter([('iterate', tag)])
        elif op == 'keys':
            def h(o):
                k.event('h:' + tag, 'handler', op)
                return ['k_' + tag]
        elif op == 'assign':
            def h(o, key_, val):
                k.event('h:' + tag, 'handler', op)
        else:
            def h(o, key_):
                k.event('h:' + tag, 'handler', op)
        h.sim_tag = tag
        h.__name__ = tag
        self.handlers[key] = h
        return h

    def register(self, reg, tname, handlers, exact):
        t = self.env[tname]
        kw = {op: self.handler(op, tag) for op, tag in handlers.items()}
        if reg == 'default':
            self.G.register(t, exact=exact, **kw)
        else:
            self.glommers[reg].register(t, exact=exact, **kw)
        self.models[reg].register(t, exact=exact, **kw)

    def observe(self, reg, cname, lop):
        obj = self.objs[cname]
        h = self.real[reg].get_handler(lop, obj, raise_exc=False)
        return regmodel.hname(h)

    def public_call(self, reg, cname, lop):
        """drive the same look-up through the public API; -> list of handler tags that ran"""
        G = self.G
        obj = make_obj(self.env[cname])
        n0 = len(self.k.log)
        glom = G.glom if reg == 'default' else self.glommers[reg].glom
        try:
            if lop == 'get':
                glom(obj, G.Path('x'))
            elif lop == 'iterate':
                glom(obj, [G.T])
            elif lop == 'keys':
                glom(obj, G.Path(G.T.__star__()))
            elif lop == 'assign':
                glom(obj, G.Assign(G.Path('x'), 1))
            else:
                glom(obj, G.Delete(G.Path('x')))
            err = None
        except Exception as e:
            err = type(e).__name__
        return [e[1][2:] for e in self.k.log[n0:] if e[3] == 'handler' and e[4] == lop], err


def _broadcast_delete(self, reg, cnames):
    G = self.G
    objs = [make_obj(self.env[cn]) for cn in cnames]
    n0 = len(self.k.log)
    glom = G.glom if reg == 'default' else self.glommers[reg].glom
    try:
        glom(objs, G.Delete(G.Path(G.T.__star__(), 'x'), ignore_missing=True))
        err = None
    except Exception as e:
        err = type(e).__name__
    return [e[1][2:] for e in self.k.log[n0:] if e[3] == 'handler' and e[4] == 'delete'], err


def battery(W, regs, names):
    out = {}
    for reg in regs:
        for cn in names:
            for lop in OPS_ALL:
                out[f'{reg}/{cn}/{lop}'] = W.observe(reg, cn, lop)
    return out


def _observe_raising(self, reg, cname, lop):
    obj = self.objs[cname]
    try:
        h = self.real[reg].get_handler(lop, obj)
    except self.G.UnregisteredTarget:
        return 'unregistered'
    if h is False:
        return 'returned-False'
    return regmodel.hname(h)


def _list_is_plain_iterable(self, reg):
    """does '*' over a plain list yield its items in this registry (not in a bare Glommer)?"""
    r = self.real[reg]
    try:
        return r.get_handler('iterate', [], raise_exc=False) is iter and not r.get_handler('keys', [], raise_exc=False)
    except Exception:
        return False


World.broadcast_delete = _broadcast_delete
World.observe_raising = _observe_raising
World.list_is_plain_iterable = _list_is_plain_iterable


def run_history(case, ops, set_perm=None, lookups=True, drop_before_final=False, check=True):
    """-> (violations, final battery, trace, stats)"""
    W = World(case, set_perm=set_perm)
    viols = []
    trace = []
    stats = {}
    names = [c['name'] for c in case['family']['classes']]

    def st(n_, x=1):
        stats[n_] = stats.get(n_, 0) + x
    for i, op in enumerate(ops):
        kind = op['op']
        if kind == 'register':
            if op['type'] not in W.env or op['reg'] not in W.real:
                continue
            W.register(op['reg'], op['type'], op['handlers'], op['exact'])
            st('registrations')
        elif kind == 'register_op':
            if op['reg'] not in W.real:
                continue
            W.real[op['reg']].register_op(op['name'], exact=op['exact'])
            W.models[op['reg']].register_op(op['name'], (lambda t: False), known_types_exact=op['exact'])
            st('register_ops')
        elif kind == 'new_glommer':
            W.add_glommer(op['id'], op['defaults'])
        elif kind == 'drop':
            if op['reg'] in W.real:
                W.real[op['reg']]._type_cache = {}
                st('memo_drops')
        elif kind == 'lookup' and lookups:
            if op['cls'] not in W.objs or op['reg'] not in W.real:
                continue
            obs = W.observe(op['reg'], op['cls'], op['lop'])
            trace.append([i, obs])
            st('lookups')
            if check:
                # "nor on which lookups happened before": the quiet look-up above (raise_exc=False) must
                # not change what a raising look-up of the same type does next
                loud = W.observe_raising(op['reg'], op['cls'], op['lop'])
                if loud != obs:
                    viols.append({'clause': 'choice-is-stable', 'sig': 'choice-is-stable/raising-lookup-after-quiet-lookup/'
                                  + ('returned-False' if loud == 'returned-False' else 'other'),
                                  'expected': obs, 'observed': loud, 'op_index': i})
                allowed, why = W.models[op['reg']].allowed(op['lop'], W.objs[op['cls']])
                if len(allowed) > 1:
                    st('ambiguous_lookups')
                if obs not in allowed:
                    viols.append(_viol(W, case, op, obs, allowed, why, i))
                elif not obs.startswith(('builtin:', 'unregistered')) and op['lop'] in OPS:
                    ran, err = W.public_call(op['reg'], op['cls'], op['lop'])
                    st('public_api_confirmations')
                    if op['lop'] in ('get', 'iterate', 'assign', 'delete') and obs not in ran:
                        viols.append({'clause': 'public-api', 'sig': f'public-api/{op["lop"]}-handler-not-run',
                                      'expected': obs, 'observed': {'ran': ran, 'err': err}, 'op_index': i})
            if check and i % 3 == 0 and len(names) > 1 and op['cls'] in names and W.list_is_plain_iterable(op['reg']):
                # the same through a wildcard: every match is served by the handler of ITS nearest
                # registered type (two children of different classes under one '*')
                other = names[(names.index(op['cls']) + 1) % len(names)]
                want = []
                for cn in (op['cls'], other):
                    h = W.observe(op['reg'], cn, 'delete')
                    if h == 'unregistered':
                        break
                    if not h.startswith('builtin:'):
                        want.append(h)
                ran, err = W.broadcast_delete(op['reg'], [op['cls'], other])
                st('broadcast_confirmations')
                if ran != want:
                    viols.append({'clause': 'public-api', 'sig': 'public-api/wildcard-delete-handlers',
                                  'expected': want, 'observed': {'ran': ran, 'err': err}, 'op_index': i})
    if drop_before_final:
        for r in W.real.values():
            r._type_cache = {}
    bat = battery(W, list(W.real), names)
    if check:
        for key, obs in bat.items():
            reg, cn, lop = key.split('/')
            allowed, why = W.models[reg].allowed(lop, W.objs[cn])
            if obs not in allowed:
                viols.append(_viol(W, case, {'reg': reg, 'cls': cn, 'lop': lop}, obs, allowed, why, 'final'))
    return viols, bat, trace, stats, W


def _viol(W, case, op, obs, allowed, why, idx):
    cls = W.env[op['cls']]
    kindreg = 'default' if op['reg'] == 'default' else ('bare' if not _has_defaults(case, op['reg']) else 'glommer')
    if why == 'exact':
        clause = 'exact-registration-wins'
    elif obs == 'unregistered':
        clause = 'covers-subclasses'
    elif 'builtin' in obs and any(not a.startswith('builtin') for a in allowed):
        clause = 'covers-subclasses'
    else:
        clause = 'more-specific-wins'
    shape = _shape_of(cls)
    return {'clause': clause, 'sig': f'{clause}/{kindreg}/{op["lop"]}/{shape}/got-{_gen(obs)}-want-{"|".join(sorted(_gen(a) for a in allowed))}',
            'expected': sorted(allowed), 'observed': obs, 'why': why, 'op_index': idx,
            'lookup': [op['reg'], op['cls'], op['lop']]}


def _gen(name):
    if name.startswith('h') and name[1:-1].isdigit():
        return 'tagged'
    return name


def _shape_of(cls):
    for b in (OrderedDict, dict, list, tuple):
        if issubclass(cls, b):
            return f'{b.__name__}-subclass-' + ('with' if regmodel.instances_have_dict(cls) else 'without') + '-dict'
    return 'class-' + ('with' if regmodel.instances_have_dict(cls) else 'without') + '-dict'


def _has_defaults(case, reg):
    if reg in ('default', 'g0'):
        return True
    if reg == 'b0':
        return False
    for op in case['ops']:
        if op['op'] == 'new_glommer' and op['id'] == reg:
            return op['defaults']
    return True


def permuted_ops(case):
    """registrations in another order; registrations of the SAME (registry, type) keep their relative order"""
    rng = random.Random(case['perm_seed'])
    if any(op['op'] == 'register_op' for op in case['ops']):
        # (declaring an operation looks at the types known at that moment: registrations are not
        # moved across it -- this variant then only drops the intermediate look-ups)
        return [op for op in case['ops'] if op['op'] in ('register', 'new_glommer', 'register_op')]
    regs = [op for op in case['ops'] if op['op'] == 'register']
    others = [op for op in case['ops'] if op['op'] == 'new_glommer']
    order = list(range(len(regs)))
    rng.shuffle(order)
    # restore relative order within each (reg, type) group
    groups = {}
    for i, op in enumerate(regs):
        groups.setdefault((op['reg'], op['type']), []).append(i)
    out = [None] * len(regs)
    it = {g: iter(sorted(v)) for g, v in groups.items()}
    for pos, i in enumerate(order):
        g = (regs[i]['reg'], regs[i]['type'])
        out[pos] = regs[next(it[g])]
    return others + out


def glommer_parity(case):
    """a fresh default Glommer behaves like a cold module-level glom (fixed battery, public API)"""
    viols = []
    W = World(case)
    G = W.G
    gl = G.Glommer()
    targets = {
        'dict': lambda: {'x': 1, 'y': [1, 2]}, 'list': lambda: [10, 20], 'tuple': lambda: (1, 2),
        'odict': lambda: OrderedDict([('x', 1)]), 'set': lambda: {1},
    }
    for c in case['family']['classes'][:4]:
        targets[c['name']] = (lambda cn=c['name']: make_obj(W.env[cn]))
    specs = {
        'get': lambda: G.Path('x'), 'get0': lambda: G.Path(0), 'iterate': lambda: [G.T], 'keys': lambda: '*',
        'assign': lambda: G.Assign(G.Path('x'), 5), 'assign0': lambda: G.Assign(G.Path(0), 5),
        'delete': lambda: G.Delete(G.Path('x')), 'delete0': lambda: G.Delete(G.Path(0)),
    }
    for tn, tf in targets.items():
        for sn, sf in specs.items():
            outs = []
            for fn in (G.glom, gl.glom):
                t = tf()
                try:
                    r = ('ok', canon.canon(fn(t, sf())), canon.canon(t))
                except Exception as e:
                    r = ('exc', type(e).__name__ if isinstance(e, G.GlomError) else 'wrapped')
                outs.append(r)
            if outs[0] != outs[1]:
                op = sn.rstrip('0')
                viols.append({'clause': 'glommer-default-parity', 'sig': f'glommer-default-parity/{op}',
                              'expected': outs[0], 'observed': outs[1], 'target': tn, 'spec': sn})
    return viols


def run_case(case):
    stats = {}
    viols, bat, trace, st, W = run_history(case, case['ops'])
    stats.update(st)
    names = [c['name'] for c in case['family']['classes']]
    digest_parts = [trace, sorted(bat.items())]
    # ---- stability across variants
    variants = [
        ('registration-order', dict(ops=permuted_ops(case), lookups=False)),
        ('known-types-set-order', dict(ops=case['ops'], set_perm=case['alt_set_perm'])),
        ('lookups-and-memo', dict(ops=case['ops'], lookups=False, drop_before_final=True)),
    ]
    for vname, kw in variants:
        v2, bat2, _, _, W2 = run_history(case, kw['ops'], set_perm=kw.get('set_perm'),
                                         lookups=kw.get('lookups', True),
                                         drop_before_final=kw.get('drop_before_final', False), check=False)
        digest_parts.append(sorted(bat2.items()))
        diff = [key for key in bat if bat2.get(key) != bat[key]]
        stats['variant_runs'] = stats.get('variant_runs', 0) + 1
        if diff:
            key = diff[0]
            reg, cn, lop = key.split('/')
            kindreg = 'default' if reg == 'default' else ('bare' if not _has_defaults(case, reg) else 'glommer')
            viols.append({'clause': 'choice-is-stable',
                          'sig': f'choice-is-stable/{vname}/{kindreg}/{lop}/{_shape_of(W.env[cn])}',
                          'expected': {key: bat[key]}, 'observed': {key: bat2.get(key)}, 'n_differing': len(diff)})
    pv = glommer_parity(case) if case['seed'] % 10 == 0 or case.get('parity') else []
    viols.extend(pv)
    d = simrun.jhash(digest_parts)
    for v in viols:
        v['digest'] = d
    regs_by_chain = sum(1 for op in case['ops'] if op['op'] == 'register')
    nontrivial = regs_by_chain >= 2 and stats.get('lookups', 0) >= 1
    shape = simrun.jhash([case['family'], case['ops']])
    return {'violations': viols, 'digest': d, 'stats': stats, 'shape': shape, 'nontrivial': nontrivial}


def run_seed(seed, tier):
    case = gen_case(seed, tier)
    try:
        r = run_case(case)
    except SimBudgetExceeded:
        return {'runs': 1, 'stats': {'budget_exceeded': 1}, 'shapes': [], 'violations': []}
    out = {'runs': 4, 'events': 0, 'lines': 0, 'stats': r['stats'],
           'shapes': [r['shape']] if r['nontrivial'] else [], 'violations': [], 'harness_errors': [],
           'trace_digests': [r['digest']]}
    seen = set()
    for v in r['violations']:
        if v['sig'] in seen:
            continue
        seen.add(v['sig'])
        c = copy.deepcopy(case)
        if v['clause'] == 'glommer-default-parity':
            c['parity'] = True
        out['violations'].append(dict(v, case=c))
    if seed % 250 == 0:
        out['sample'] = {'seed': seed, 'family': case['family'], 'ops': case['ops'][:12], 'knobs': case['knobs']}
    return out
