"""C06 — non-mutating specs are pure: inputs untouched, outcome independent of history.

System: ONE private glom instance lives through a whole history of operations (calls from a pool
of (target, spec) recipes re-using the same target and spec *objects*, cache floods with small
Path._MAX_CACHE, PATH_STAR toggles, cache drops, registrations, Glommers, aborted calls
(collaborator BaseException or a line crash inside glom), interleaved pairs of calls).
Oracle: (1) cold equivalence — every call's outcome equals the same recipe evaluated first in a
cold private instance given the same registrations and PATH_STAR; (2) frame condition — identity-
preserving snapshots of target, spec object graph and caller scope mapping are equal before and
after each call; (3) after an aborted call, (1) still holds for every pool entry.
"""
import copy
import gc
import random

from .. import gen, simrun, canon, build
from ..kernel import SimBudgetExceeded, LineCrash, LineCrashBase

PROP = 'C06'
LEVEL = 'exploration'
RULE = ('seeded histories of <= 40 operations over a pool of <= 8 non-mutating (target, spec) recipes '
        'in one long-lived private instance; op kinds: call / repeat / same-spec-other-target / flood '
        '/ toggle PATH_STAR / drop caches / register / glommer / aborted call (collaborator '
        'BaseException, line crash) / interleaved pair / gc; distinct = hash(pool recipes, op '
        'sequence); non-trivial = history has >= 2 calls of one pool entry separated by a '
        'state-changing op (flood, toggle, drop, register, abort, pair)')
ASSUMPTIONS = [
    'cold reference = same code in a fresh private instance (default Path._MAX_CACHE) with the same '
    'registrations replayed and the PATH_STAR value in force',
    'pool specs contain no Assign/Delete/mutating callables; targets are re-iterable',
    'handlers registered by the workload are pure',
]


def budget(tier):
    if tier == 'thorough':
        return {'seeds': 55000, 'wall': 900, 'chunk': 100}
    return {'seeds': 6000, 'wall': 200, 'chunk': 50}


REG_TYPES = ['Obj', 'SimObj', 'MyDict', 'SimDict', 'ROProp', 'SimList', 'dict', 'list', 'OrderedDict', 'Obj', 'MyList']
REG_HANDLERS = {
    'get': ['getattr', 'getitem', 'tag_get'],
    'iterate': ['iter', 'tag_iter'],
    'keys': ['tag_keys'],
}


def _handler(name):
    if name == 'getattr':
        return getattr
    if name == 'getitem':
        import operator
        return operator.getitem
    if name == 'iter':
        return iter
    if name == 'tag_get':
        return _tag_get
    if name == 'tag_iter':
        return _tag_iter
    if name == 'tag_keys':
        return _tag_keys
    raise ValueError(name)


def _tag_get(o, k):
    return ('tag_get', k)


def _tag_iter(o):
    return iter(['tag_iter'])


def _tag_keys(o):
    return ['tk1', 'tk2']


def _reg_type(name):
    from .. import collab
    from collections import OrderedDict
    builtin = {'dict': dict, 'list': list, 'OrderedDict': OrderedDict}
    if name in builtin:
        return builtin[name]
    return getattr(collab, name)


def make_nested_duck(registry_owner):
    """a structural ("duck") type whose isinstance hook itself calls glom, through the registry it is
    registered in: a handler look-up that reaches it re-enters glom in the middle of the look-up"""
    glom_fn = registry_owner.glom

    class _Meta(type):
        busy = False

        def __instancecheck__(cls, obj):
            if _Meta.busy:
                return False
            _Meta.busy = True
            try:
                # (what comes back depends on the registrations of the case and is ignored: the hook
                # never matches and never touches *obj*, so look-ups go on exactly as without it)
                glom_fn({'probe': 1}, 'probe')
            except Exception:
                pass
            finally:
                _Meta.busy = False
            return False

    class NestedDuck(metaclass=_Meta):
        pass
    return NestedDuck


def apply_reg(registry_owner, reg):
    """reg = {'type': name, 'op': op, 'h': handler name, 'exact': bool}"""
    kw = {reg['op']: _handler(reg['h'])}
    if reg.get('exact'):
        kw['exact'] = True
    if reg['type'] == 'NestedDuck':
        registry_owner.register(make_nested_duck(registry_owner), **kw)
        return
    registry_owner.register(_reg_type(reg['type']), **kw)


def gen_case(seed, tier):
    rng = random.Random(seed)
    knobs = simrun.draw_knobs(rng)
    knobs['max_cache'] = rng.choice([0, 1, 3, 7, 10000])
    feats = gen.swarm_feats(rng)
    feats -= {'custom', 'nested'}
    ctx = gen.Ctx(rng, feats=feats, sim=rng.choice([0.1, 0.4, 0.7]), fail=rng.choice([0.05, 0.2]),
                  mutate=False, max_depth=rng.choice([2, 3, 4]))
    npool = rng.randint(2, 8)
    pool = []
    for _ in range(npool):
        ctx.bound = []
        tgt = gen.gen_target(ctx)
        spec, _ = gen.gen_spec(ctx, tgt, 0)
        call = {'target': tgt, 'spec': spec, 'kw': {}}
        r = rng.random()
        if r < 0.15:
            call['kw']['default'] = 'top-default'
        if rng.random() < 0.2:
            call['kw']['scope'] = [['sv', {'t': 'dict', 'n': ctx.new_nid(), 'v': [['q', rng.randint(0, 5)]]}]]
        pool.append(call)
    # a few pool entries that depend on the caches: long path strings, wildcard strings
    if rng.random() < 0.6:
        pool.append({'target': {'t': 'dict', 'n': ctx.new_nid(), 'v': [['a', {'t': 'dict', 'n': ctx.new_nid(), 'v': [['*', 1], ['b', 2]]}]]},
                     'spec': ['str', rng.choice(['a.*', 'a.b', '*', 'a.**', '**'])], 'kw': {}})
    # one target type under every spec family that asks the registry for a handler (what one family
    # learnt about a type -- also that it has NO handler -- must not change what another one does)
    if rng.random() < 0.3:
        tt = rng.choice([5, 2.5, None, True, {'t': 'obj', 'n': ctx.new_nid(), 'v': [['a', 1]]},
                         {'t': 'list', 'n': ctx.new_nid(), 'v': [1, 2]}, {'t': 'dict', 'n': ctx.new_nid(), 'v': [['a', 1]]}])
        fams = [['Sum'], ['Flatten'], ['Merge'], ['list', [['T', 'T', []]]], ['Iter', None, None, [], ['all']],
                ['Group', ['list', [['T', 'T', []]]]], ['str', '*'], ['str', '**'], ['str', 'a'], ['str', '0'],
                ['Fold', ['T', 'T', []], ['fn', 'int'], ['fn', 'add']]]
        for fam in rng.sample(fams, rng.randint(2, 4)):
            pool.append({'target': copy.deepcopy(tt), 'spec': fam, 'kw': {}})
    # several Regex specs with the SAME pattern that differ only in how they are applied
    if rng.random() < 0.2:
        pat, txt = rng.choice([['b+', 'abbc'], ['[a-c]{2}', 'xabx'], ['a', 'ab']])
        for fn in rng.sample([None, 'search', 'match', 'fullmatch'], rng.randint(2, 3)):
            pool.append({'target': txt, 'spec': ['Coalesce', [['Match', ['Regex', pat, fn]]], {'default': 'no-match'}], 'kw': {}})
    # spec objects of ONE class, some plain callables, some with an instance-level glomit hook
    if rng.random() < 0.12:
        for j, hook in enumerate(rng.sample([True, False, True, False], rng.randint(2, 3))):
            pool.append({'target': 1, 'spec': ['flex', f'f{j}', hook], 'kw': {}})
    nops = rng.randint(4, 40 if tier == 'thorough' else 28)
    ops = []
    thorough = tier == 'thorough'
    for _ in range(nops):
        r = rng.random()
        i = rng.randrange(len(pool))
        if r < 0.42:
            ops.append({'op': 'call', 'i': i})
        elif r < 0.50:
            ops.append({'op': 'cross', 'i': i, 'j': rng.randrange(len(pool))})
        elif r < 0.60:
            ops.append({'op': 'flood', 'n': rng.choice([2, 5, 12, 30]), 'base': rng.randint(0, 10 ** 6)})
        elif r < 0.66:
            ops.append({'op': 'toggle'})
        elif r < 0.71:
            ops.append({'op': 'drop', 'what': rng.choice(['path', 'types', 'both'])})
        elif r < 0.78:
            op = rng.choice(list(REG_HANDLERS))
            ops.append({'op': 'register', 'reg': {'type': rng.choice(REG_TYPES), 'op': op,
                                                  'h': rng.choice(REG_HANDLERS[op]),
                                                  'exact': rng.random() < 0.3}})
        elif r < 0.83:
            ops.append({'op': 'glommer', 'i': i, 'defaults': rng.random() < 0.8})
        elif r < 0.88:
            ops.append({'op': 'abort', 'i': i, 'at': rng.randint(0, 6),
                        'cls': rng.choice(['KeyboardInterrupt', 'UserBase', 'SystemExit', 'GeneratorExit'])})
        elif r < 0.93:
            ops.append({'op': 'linecrash', 'i': i, 'at': rng.randint(1, 500 if thorough else 250),
                        'exc': rng.choice(['Exception', 'BaseException'])})
        elif r < 0.97:
            ops.append({'op': 'pair', 'i': i, 'j': rng.randrange(len(pool)), 'switches': {},
                        'p_point': rng.choice([0.3, 1.0]), 'line_p': rng.choice([0, 0, 0.05])})
        elif r < 0.975:
            ops.append({'op': 'hammer', 'i': i, 'n': 130,
                        'cls': rng.choice(['KeyboardInterrupt', 'UserBase', 'UserKwOnly', 'UGlomKwOnly'])})
        elif r < 0.99:
            # a registration on SOME OTHER Glommer: not a registration of this call's registry
            op = rng.choice(list(REG_HANDLERS))
            ops.append({'op': 'side_register', 'reg': {'type': rng.choice(REG_TYPES), 'op': op,
                                                       'h': rng.choice(REG_HANDLERS[op]), 'exact': False}})
            ops.append({'op': 'glommer', 'i': i, 'defaults': True})
        else:
            ops.append({'op': 'gc'})
    return {'prop': PROP, 'seed': seed, 'knobs': knobs, 'pool': pool, 'shared': [], 'ops': ops,
            'fresh_interpreter': seed % (25 if tier == 'quick' else 10) == 0}


class _Cold:
    """memoised cold references for one case"""

    def __init__(self, case):
        self.case = case
        self.memo = {}
        self.n = 0
        self.jobs = []

    def outcome(self, i, j, path_star, regs, glommer=None):
        key = simrun.jhash([i, j, path_star, regs, glommer])
        if key in self.memo:
            return self.memo[key]
        self.n += 1
        self.jobs.append({'i': i, 'j': j, 'path_star': path_star, 'regs': regs, 'glommer': glommer, 'key': key})
        kn = dict(self.case['knobs'], max_cache=10000, path_star=path_star)
        G = simrun.make_instance(kn)
        k = simrun.make_kernel(G, seed=0)
        B = build.Builder(G, k, shared=self.case.get('shared'))
        for reg in regs:
            apply_reg(G, reg)
        call = dict(self.case['pool'][j])
        call['target'] = self.case['pool'][i]['target']
        th, target, spec, kw = simrun.call_thunk(G, B, call)
        if glommer is not None:
            gl = G.Glommer(register_default_types=glommer['defaults'])
            th = lambda: gl.glom(target, spec, **kw)
        res = k.run_single(lambda: simrun.consume(th()))
        out = canon.outcome(res, B.idmap)
        self.memo[key] = out
        return out


def fresh_interpreter_outcomes(case, jobs):
    """evaluate the cold references again in a brand-new interpreter under another PYTHONHASHSEED"""
    import json
    import os
    import subprocess
    import sys
    from .. import runner
    env = dict(os.environ, PYTHONHASHSEED='4242')
    p = subprocess.run([sys.executable, os.path.join(runner.VERIF, 'run_check.py'), '--c06-cold'],
                       input=json.dumps({'case': case, 'jobs': jobs}), capture_output=True, text=True,
                       env=env, timeout=300, cwd=runner.VERIF)
    if p.returncode != 0:
        raise RuntimeError('fresh interpreter failed: ' + p.stderr[-500:])
    return json.loads(p.stdout.strip().splitlines()[-1])


def cold_main(payload):
    """entry for `run_check.py --c06-cold` (reads {'case', 'jobs'}, prints {key: outcome})"""
    case = payload['case']
    cold = _Cold(case)
    out = {}
    for jb in payload['jobs']:
        out[jb['key']] = cold.outcome(jb['i'], jb['j'], jb['path_star'], jb['regs'], jb['glommer'])
    return out


def run_case(case, gen_rng=None):
    stats = {}
    viols = []
    kn = case['knobs']
    G = simrun.make_instance(kn)
    k = simrun.make_kernel(G, seed=case['seed'])
    B = build.Builder(G, k, shared=case.get('shared'))
    pool = []
    for call in case['pool']:
        th, target, spec, kw = simrun.call_thunk(G, B, call)
        pool.append({'target': target, 'spec': spec, 'kw': kw})
    cold = _Cold(case)
    regs = []
    path_star = kn['path_star']
    trace = []
    called = {}
    state_epoch = 0
    side_glommers = []
    nontrivial = False

    def st(name, n=1):
        stats[name] = stats.get(name, 0) + n

    def do_call(i, j, glommer=None, check=True, opname='call'):
        nonlocal nontrivial
        p_t, p_s = pool[i], pool[j]
        target, spec, kw = p_t['target'], p_s['spec'], p_s['kw']
        scope_map = kw.get('scope')
        before = canon.snapshot(target, extra_roots=[spec, scope_map])
        k.counts = {}
        if glommer is not None:
            gl = G.Glommer(register_default_types=glommer['defaults'])
            thunk = lambda: simrun.consume(gl.glom(target, spec, **kw))
        else:
            thunk = lambda: simrun.consume(G.glom(target, spec, **kw))
        res = k.run_single(thunk)
        after = canon.snapshot(target, extra_roots=[spec, scope_map])
        out = canon.outcome(res, B.idmap)
        trace.append([opname, i, j, simrun.jhash(out)])
        if check:
            st('calls')
            if not canon.snap_equal(before, after):
                viols.append({'clause': 'frame-condition', 'sig': 'frame-condition/' + _which(before, after),
                              'expected': 'target, spec and scope mapping unchanged (structure and identity)',
                              'observed': canon.snap_diff(before, after), 'op_index': len(trace) - 1})
            if res[0] == 'ok':
                al = _aliased_literal(res[1], B.arg_literals)
                if al:
                    viols.append({'clause': 'frame-condition', 'sig': 'frame-condition/result-is-the-specs-own-literal',
                                  'expected': 'containers written in argument position are rebuilt for every call',
                                  'observed': al, 'op_index': len(trace) - 1})
            exp = cold.outcome(i, j, path_star, regs, glommer)
            if exp != out and canon.mentions_recursion([exp, out]):
                st('recursion_not_comparable')
            elif exp != out:
                viols.append({'clause': 'cold-equivalence', 'sig': 'cold-equivalence/' + opname,
                              'expected': exp, 'observed': out, 'op_index': len(trace) - 1})
            key = (i, j)
            if key in called and called[key] != state_epoch:
                nontrivial = True
            called[key] = state_epoch
        return res

    for op in case['ops']:
        kind = op['op']
        if kind == 'call':
            do_call(op['i'], op['i'])
        elif kind == 'cross':
            do_call(op['i'], op['j'], opname='cross')
        elif kind == 'glommer':
            do_call(op['i'], op['i'], glommer={'defaults': op['defaults']}, opname='glommer')
            st('glommer_calls')
        elif kind == 'flood':
            for x in range(op['n']):
                try:
                    G.glom({}, f'f{op["base"] + x}.g', default=None)
                except Exception:
                    pass
            state_epoch += 1
            st('floods')
            if len(G.core.Path._CACHE[G.core.PATH_STAR]) > G.core.Path._MAX_CACHE:
                st('reach.path_cache_overflow')
        elif kind == 'toggle':
            path_star = not path_star
            G.core.PATH_STAR = path_star
            state_epoch += 1
            st('toggles')
        elif kind == 'drop':
            if op['what'] in ('path', 'both'):
                G.core.Path._CACHE[True].clear()
                G.core.Path._CACHE[False].clear()
            if op['what'] in ('types', 'both'):
                G.core._DEFAULT_SCOPE[G.core.TargetRegistry]._type_cache = {}
            state_epoch += 1
            st('drops')
        elif kind == 'side_register':
            if not side_glommers:
                side_glommers.append(G.Glommer())
            apply_reg(side_glommers[0], op['reg'])
            state_epoch += 1
            st('side_registers')
        elif kind == 'register':
            apply_reg(G, op['reg'])
            regs = regs + [op['reg']]
            state_epoch += 1
            st('registers')
        elif kind == 'gc':
            gc.collect()
        elif kind == 'abort':
            n0 = len(k.log)
            at, cls = op['at'], op['cls']
            fired = []

            def fg(task, site, nth, kind_, _n0=n0):
                if not fired and len(k.log) - _n0 - 1 >= at:
                    fired.append(1)
                    return {'cls': cls}
                return None
            k.fault_gen = fg
            k.faults = {}
            res = do_call(op['i'], op['i'], check=False, opname='abort')
            k.fault_gen = None
            k.faults = {}
            if fired:
                st('fault.' + cls)
                st('aborted_calls')
                state_epoch += 1
                if res[0] != 'exc' or type(res[1]).__name__ != cls:
                    # a BaseException injected into a collaborator must leave glom() unchanged
                    viols.append({'clause': 'abort-propagates', 'sig': 'abort-propagates/' + cls,
                                  'expected': cls, 'observed': canon.outcome(res, B.idmap, with_text=False)})
        elif kind == 'hammer':
            # the same call, aborted at its first collaborator point, many times over: whatever a failed
            # call leaves behind must not add up (the calls after it are checked as always)
            cls = op['cls']
            hits = 0
            for _ in range(op['n']):
                n0 = len(k.log)
                fired = []

                def fg(task, site, nth, kind_, _f=fired):
                    if not _f:
                        _f.append(1)
                        return {'cls': cls}
                    return None
                k.fault_gen = fg
                k.faults = {}
                do_call(op['i'], op['i'], check=False, opname='hammer')
                k.fault_gen = None
                k.faults = {}
                del k.log[n0 + 50:]
                if not fired:
                    break
                hits += 1
            if hits:
                st('hammered_calls', hits)
                state_epoch += 1
        elif kind == 'linecrash':
            k.line_crash = {'at': k.ln + op['at'], 'exc': op['exc']}
            res = do_call(op['i'], op['i'], check=False, opname='linecrash')
            k.line_crash = None
            if k.crashed_at:
                st('fault.line_crash_' + op['exc'])
                st('reach.line_crash_in_' + k.crashed_at[0])
                k.crashed_at = None
                state_epoch += 1
        elif kind == 'pair':
            i, j = op['i'], op['j']
            ts = []
            for x in (i, j):
                p = pool[x]
                ts.append((lambda p=p: simrun.consume(G.glom(p['target'], p['spec'], **p['kw']))))
            snaps = [canon.snapshot(pool[x]['target'], extra_roots=[pool[x]['spec']]) for x in (i, j)]
            k.counts = {}
            k.yp = 0
            k.switch_seq = []
            if gen_rng is not None:
                k.gen_rng, k.p_point, k.p_line = gen_rng, op['p_point'], op['line_p']
                k.switches = {}
            else:
                k.gen_rng = None
                k.switches = {int(a): b for a, b in op['switches'].items()}
                k._line_switches = bool(op['line_p'])
                k.p_line = 0
            # probe tokens name the task that produced them; the cold reference runs every call as
            # task 0, so the pair's tokens are labelled 0 too (a textual rewrite afterwards missed
            # tokens that the spec had split into characters or that a trace line had truncated)
            k.tok_label = 0
            try:
                results = k.run_tasks(ts)
            finally:
                k.tok_label = None
            if gen_rng is not None:
                op['switches'] = {str(a): b for a, b in sorted(k.switches.items())}
            k.gen_rng, k.p_point, k.p_line, k._line_switches = None, 0, 0, False
            st('pairs')
            st('switches', k.n_switches)
            state_epoch += 1
            for idx, x in enumerate((i, j)):
                out = canon.outcome(results[idx], B.idmap)
                exp = cold.outcome(x, x, path_star, regs)
                trace.append(['pair', x, idx, simrun.jhash(out)])
                if exp != out and not canon.mentions_recursion([exp, out]):
                    viols.append({'clause': 'cold-equivalence', 'sig': 'cold-equivalence/pair',
                                  'expected': exp, 'observed': out, 'op_index': len(trace) - 1})
                after = canon.snapshot(pool[x]['target'], extra_roots=[pool[x]['spec']])
                if not canon.snap_equal(snaps[idx], after):
                    viols.append({'clause': 'frame-condition', 'sig': 'frame-condition/pair',
                                  'expected': 'unchanged', 'observed': canon.snap_diff(snaps[idx], after)})
    if case.get('fresh_interpreter') and cold.jobs:
        fresh = fresh_interpreter_outcomes({kk: case[kk] for kk in ('knobs', 'pool', 'shared', 'seed')}, cold.jobs)
        stats['fresh_interpreter_refs'] = len(cold.jobs)
        for jb in cold.jobs:
            if fresh.get(jb['key']) != cold.memo[jb['key']] and not canon.mentions_recursion(
                    [fresh.get(jb['key']), cold.memo[jb['key']]]):
                viols.append({'clause': 'cold-equivalence', 'sig': 'cold-equivalence/fresh-interpreter',
                              'expected': fresh.get(jb['key']), 'observed': cold.memo[jb['key']],
                              'job': {kk: jb[kk] for kk in ('i', 'j', 'path_star')}})
                break
    digest = simrun.jhash([trace, k.digest()])
    for v in viols:
        v['digest'] = digest
    stats['cold_refs'] = cold.n
    shape = simrun.jhash([case['pool'], [[o['op'], o.get('i'), o.get('j')] for o in case['ops']]])
    return {'violations': viols, 'digest': digest, 'stats': stats, 'shape': shape,
            'nontrivial': nontrivial, 'events': len(k.log), 'lines': k.ln}


def _aliased_literal(v, arg_literals, depth=0, seen=None):
    """does the result contain (by identity) a list/dict that the spec holds in argument position?"""
    if not arg_literals or depth > 12:
        return None
    seen = set() if seen is None else seen
    if id(v) in seen:
        return None
    seen.add(id(v))
    if type(v) in (list, dict) and id(v) in arg_literals:
        return arg_literals[id(v)]
    if isinstance(v, dict):
        items = list(dict.values(v))
    elif isinstance(v, (list, tuple)):
        items = list(v)
    else:
        return None
    for x in items:
        r = _aliased_literal(x, arg_literals, depth + 1, seen)
        if r:
            return r
    return None


def _which(a, b):
    if a['root'] != b['root'] or a['extra'] != b['extra']:
        return 'root'
    changed = [nid for nid in a['nodes'] if a['nodes'].get(nid) != b['nodes'].get(nid)]
    new = [nid for nid in b['nodes'] if nid not in a['nodes']]
    if changed:
        return 'content:' + a['nodes'][changed[0]][0]
    if new:
        return 'new-node'
    return 'identity'


def run_seed(seed, tier):
    case = gen_case(seed, tier)
    rng = random.Random(seed ^ 0x9E3779B9)
    try:
        r = run_case(case, gen_rng=rng)
    except SimBudgetExceeded:
        return {'runs': 1, 'stats': {'budget_exceeded': 1}, 'shapes': [], 'violations': []}
    out = {'runs': 1, 'events': r['events'], 'lines': r['lines'], 'stats': r['stats'],
           'shapes': [r['shape']] if r['nontrivial'] else [], 'violations': [], 'harness_errors': [],
           'trace_digests': [r['digest']]}
    if seed % 5 == 0 or r['violations']:
        r2 = run_case(copy.deepcopy(case))
        out['runs'] += 1
        out['stats']['replay_checked'] = 1
        if r2['digest'] != r['digest']:
            out['harness_errors'].append([seed, 'replay digest mismatch', r['digest'], r2['digest']])
    for v in r['violations']:
        out['violations'].append(dict(v, case=case))
    if seed % 300 == 0:
        out['sample'] = {'seed': seed, 'pool': case['pool'][:3], 'ops': case['ops'], 'knobs': case['knobs'],
                         'digest': r['digest']}
    return out
