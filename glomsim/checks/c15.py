"""C15 — Fold, Sum, Flatten, Merge equal plain-Python reductions and mutate no input.

What simulation decides: init() afresh on every evaluation, no state shared between evaluations, no
input element mutated — under RE-USE of one spec object across a history, across evaluations
INTERLEAVED at their source iterators (baton scheduler, switches at __next__), after evaluations
ABORTED by a source fault, and for lazy results consumed partly / abandoned.  Equality with
reduce / sum / chain.from_iterable / dict.update is the per-evaluation oracle of that workload.
"""
import copy
import functools
import gc
import itertools
import operator
import random
from collections import OrderedDict

from .. import simrun, canon, build
from ..kernel import SimBudgetExceeded

PROP = 'C15'
LEVEL = 'exploration'
RULE = ('seeded (reduction spec object, 2-6 sources) histories: sequential re-use, 2-3 evaluations of the '
        'same spec object in flight (switches at source __iter__/__next__ points), a source raising at '
        'item j followed by healthy evaluations, lazy Flatten consumed partly / abandoned, non-iterable '
        'targets; spec kinds Fold/Sum/Flatten(eager, lazy)/Merge/flatten(levels)/merge(); distinct = '
        'hash(spec, sources, mode, schedule); non-trivial = the spec object is evaluated >= 2 times or a '
        'fault/abandon happened')
ASSUMPTIONS = [
    'reference = functools.reduce / sum / itertools.chain.from_iterable / dict.update on the plain items',
    'op callables of the workload are pure (the default operator.iadd mutates only the accumulator)',
]


def budget(tier):
    if tier == 'thorough':
        return {'seeds': 400000, 'wall': 900, 'chunk': 100}
    return {'seeds': 30000, 'wall': 200, 'chunk': 50}


KINDS = ['fold_add', 'fold_max', 'fold_cat', 'fold_iadd_list', 'fold_probe_init', 'sum', 'sum_float',
         'sum_probe_init', 'flatten', 'flatten_lazy', 'flatten_tuple', 'flatten_str', 'flatten_probe_init',
         'merge', 'merge_odict', 'merge_probe_init', 'flatten_fn', 'merge_fn', 'flatten_levels2',
         'flatten_levels2_int', 'flatten_levels2_tuple', 'flatten_levels0', 'flatten_levels3',
         'merge_factory_odict', 'merge_op_absorb', 'merge_op_first_wins', 'fold_add_shared_start']

# kinds that consume every item by value as soon as they get it (a re-used item container is fine)
RECYCLE_KINDS = ('flatten', 'flatten_probe_init', 'flatten_fn', 'fold_iadd_list', 'fold_probe_init', 'merge',
                 'merge_probe_init', 'merge_fn', 'merge_op_absorb', 'merge_op_first_wins')

ITEM_KIND = {
    'fold_add': 'int', 'fold_max': 'int', 'fold_cat': 'any', 'fold_iadd_list': 'list', 'fold_probe_init': 'list',
    'sum': 'int', 'sum_float': 'int', 'sum_probe_init': 'int', 'flatten': 'list', 'flatten_lazy': 'list',
    'flatten_tuple': 'tuple', 'flatten_str': 'str', 'flatten_probe_init': 'list', 'merge': 'dict',
    'merge_odict': 'dict', 'merge_probe_init': 'dict', 'flatten_fn': 'list', 'merge_fn': 'dict',
    'flatten_levels2': 'list2', 'flatten_levels2_int': 'intlist', 'flatten_levels2_tuple': 'tuple2',
    'flatten_levels0': 'list', 'flatten_levels3': 'list3', 'merge_factory_odict': 'dict', 'merge_op_absorb': 'dict', 'merge_op_first_wins': 'dict', 'fold_add_shared_start': 'intlist',
}


def spec_recipe(kind, sub):
    P = lambda fn: ['probe', 7, 'fn', fn]
    s = sub
    return {
        'fold_add': ['Fold', s or ['T', 'T', []], ['fn', 'int'], ['fn', 'add']],
        'fold_max': ['Fold', s or ['T', 'T', []], ['fn', 'int'], ['fn', 'acc_max']],
        'fold_cat': ['Fold', s or ['T', 'T', []], ['fn', 'list'], ['fn', 'acc_cat']],
        'fold_iadd_list': ['Fold', s or ['T', 'T', []], ['fn', 'list'], None],
        'fold_probe_init': ['Fold', s or ['T', 'T', []], P('list'), None],
        'sum': ['Sum', s],
        'sum_float': ['Sum', s, ['fn', 'float']],
        'sum_probe_init': ['Sum', s, P('int')],
        'flatten': ['Flatten', s],
        'flatten_lazy': ['Flatten', s, 'lazy'],
        'flatten_tuple': ['Flatten', s, ['fn', 'tuple']],
        'flatten_str': ['Flatten', s, ['fn', 'str']],
        'flatten_probe_init': ['Flatten', s, P('list')],
        'merge': ['Merge', s],
        'merge_odict': ['Merge', s, ['fn', 'OrderedDict']],
        'merge_probe_init': ['Merge', s, P('dict')],
        'merge_factory_odict': ['Merge', s, P('OrderedDict')],     # init is a factory, not a type
        # a NON-mutating op (operator.add) with an init that hands out one long-lived start object:
        # the start object is an input like any other and is never written to
        'fold_add_shared_start': ['Fold', s or ['T', 'T', []], ['probe', 7, 'const', {'t': 'list', 'n': 990001, 'v': [0]}],
                                  ['fn', 'add']],
        'merge_op_absorb': ['Merge', s, ['fn', 'dict'], ['fn', 'absorb']],
        'merge_op_first_wins': ['Merge', s, ['fn', 'dict'], ['fn', 'first_wins']],
    }.get(kind)


def gen_items(rng, ik):
    n = rng.choice([0, 0, 1, 2, 3, 5])
    if ik == 'int':
        return [rng.randint(-3, 9) for _ in range(n)]
    if ik == 'any':
        return [rng.choice([1, 'a', None, 2.5]) for _ in range(n)]
    if ik == 'list':
        return [{'t': 'list', 'n': rng.randint(1000, 10 ** 6), 'v': [rng.randint(0, 9) for _ in range(rng.randint(0, 3))]}
                if rng.random() < 0.8 else
                ({'t': 'tuple', 'v': [rng.randint(0, 9)]} if rng.random() < 0.6 else rng.choice(['ab', '', 'xyz']))
                for _ in range(n)]      # a str chunk contributes its characters, like any other iterable
    if ik == 'list2':
        return [{'t': 'list', 'v': [{'t': 'list', 'v': [rng.randint(0, 9) for _ in range(rng.randint(0, 2))]}
                                    for _ in range(rng.randint(0, 2))]} for _ in range(n)]
    if ik == 'intlist':
        # (now and then fractions: an int start value does not make the sum an int)
        fr = rng.random() < 0.3
        return [{'t': 'list', 'v': [(rng.choice([0.5, 1.25, 2.75]) if fr and rng.random() < 0.5 else rng.randint(0, 9))
                                    for _ in range(rng.randint(0, 3))]} for _ in range(n)]
    if ik == 'tuple2':
        return [{'t': 'list', 'v': [{'t': 'tuple', 'v': [rng.randint(0, 9) for _ in range(rng.randint(0, 2))]}
                                    for _ in range(rng.randint(0, 2))]} for _ in range(n)]
    if ik == 'list3':
        return [{'t': 'list', 'v': [{'t': 'list', 'v': [{'t': 'list', 'v': [rng.randint(0, 9)]} for _ in range(rng.randint(0, 2))]}
                                    for _ in range(rng.randint(0, 2))]} for _ in range(n)]
    if ik == 'tuple':
        return [{'t': 'tuple', 'v': [rng.randint(0, 9) for _ in range(rng.randint(0, 3))]} for _ in range(n)]
    if ik == 'str':
        return [rng.choice(['', 'a', 'bc', 'é']) for _ in range(n)]
    if ik == 'dict':
        return [{'t': rng.choice(['dict', 'dict', 'odict']), 'n': rng.randint(1000, 10 ** 6),
                 'v': [[k, rng.randint(0, 9)] for k in rng.sample(['a', 'b', 'c'], rng.randint(0, 3))]}
                for _ in range(n)]
    raise ValueError(ik)


def gen_case(seed, tier):
    rng = random.Random(seed)
    kind = rng.choice(KINDS)
    ik = ITEM_KIND[kind]
    with_sub = rng.random() < 0.3 and not kind.endswith('_fn') and 'levels' not in kind
    nsrc = rng.randint(2, 6)
    sources = []
    for i in range(nsrc):
        sources.append({'items': gen_items(rng, ik), 'container': rng.choice(['simiter', 'simlist', 'simiter', 'list', 'tuple', 'gen'])})
    if kind in RECYCLE_KINDS and rng.random() < 0.3:
        for s_ in sources:
            its = s_['items']
            if its and (all(isinstance(x, dict) and x.get('t') == 'list' for x in its)
                        or all(isinstance(x, dict) and x.get('t') in ('dict',) for x in its)):
                s_['container'] = 'recycle'
    mode = rng.choice(['repeat', 'repeat', 'interleave', 'interleave', 'fault', 'noniter'] +
                      (['lazy'] * 3 if kind == 'flatten_lazy' else []))
    if kind == 'flatten_levels0' and mode == 'noniter':
        mode = 'repeat'        # levels=0 returns the target untouched: nothing to fold
    case = {'prop': PROP, 'seed': seed, 'knobs': simrun.draw_knobs(rng), 'kind': kind, 'with_sub': with_sub,
            'sources': sources, 'mode': mode}
    if mode == 'interleave':
        case['ntasks'] = min(nsrc, rng.choice([2, 3]))
        case['switches'] = {}
        case['p_point'] = rng.choice([0.3, 0.7, 1.0])
        for s in case['sources'][:case['ntasks']]:
            s['container'] = rng.choice(['simiter', 'simlist'])
    elif mode == 'fault':
        case['fault_at'] = rng.randint(0, 4)
        case['fault_cls'] = rng.choice(['UserErr', 'ValueError', 'UGlomErr', 'KeyboardInterrupt'])
        case['sources'][0]['container'] = 'simiter'
    elif mode == 'lazy':
        case['k'] = rng.randint(0, 4)
    elif mode == 'noniter':
        case['bad'] = rng.choice([5, None, {'t': 'obj', 'v': [['a', 1]]}, 2.5])
    return case


# ----------------------------------------------------------------------------------- reference

def plain(v):
    if isinstance(v, dict):
        t = v['t']
        if t == 'list':
            return [plain(x) for x in v['v']]
        if t == 'tuple':
            return tuple(plain(x) for x in v['v'])
        if t == 'dict':
            return {k: plain(x) for k, x in v['v']}
        if t == 'odict':
            return OrderedDict((k, plain(x)) for k, x in v['v'])
        raise ValueError(t)
    return v


def reference(kind, items):
    items = [plain(x) for x in items]
    if kind == 'fold_add':
        return functools.reduce(operator.add, items, 0)
    if kind == 'fold_add_shared_start':
        return functools.reduce(operator.add, items, [0])
    if kind == 'fold_max':
        return functools.reduce(lambda a, b: a if a >= b else b, items, 0)
    if kind == 'fold_cat':
        return functools.reduce(lambda a, b: a + [b], items, [])
    if kind in ('fold_iadd_list', 'fold_probe_init', 'flatten', 'flatten_probe_init', 'flatten_fn', 'flatten_lazy'):
        return list(itertools.chain.from_iterable(items))
    if kind == 'flatten_levels2':
        return list(itertools.chain.from_iterable(itertools.chain.from_iterable(items)))
    if kind == 'flatten_levels2_int':
        return sum(itertools.chain.from_iterable(items), 0)
    if kind == 'flatten_levels2_tuple':
        return tuple(itertools.chain.from_iterable(itertools.chain.from_iterable(items)))
    if kind == 'flatten_levels0':
        return items
    if kind == 'flatten_levels3':
        c = itertools.chain.from_iterable
        return list(c(c(c(items))))
    if kind in ('sum', 'sum_probe_init'):
        return sum(items)
    if kind == 'sum_float':
        return sum(items, 0.0)
    if kind == 'flatten_tuple':
        return tuple(itertools.chain.from_iterable(items))
    if kind == 'flatten_str':
        return ''.join(itertools.chain.from_iterable(items))
    if kind in ('merge', 'merge_probe_init', 'merge_fn'):
        d = {}
        for x in items:
            d.update(x)
        return d
    if kind == 'merge_op_first_wins':
        d = {}
        for x in items:
            for k, v in x.items():
                d.setdefault(k, v)
        return d
    if kind == 'merge_op_absorb':
        d = {}
        for x in items:
            d.update(x)
        return d
    if kind in ('merge_odict', 'merge_factory_odict'):
        d = OrderedDict()
        for x in items:
            d.update(x)
        return d
    raise ValueError(kind)


# ----------------------------------------------------------------------------------- world

class World:
    def __init__(self, case, faults=None, gen_rng=None):
        self.G = simrun.make_instance(case['knobs'])
        self.k = simrun.make_kernel(self.G, seed=0, faults=faults, gen_rng=gen_rng,
                                    p_point=case.get('p_point', 0) if gen_rng is not None else 0,
                                    switches=case.get('switches'))
        self.B = build.Builder(self.G, self.k)
        self.case = case
        kind = case['kind']
        sub = ['str', 'k'] if case['with_sub'] else None
        r = spec_recipe(kind, sub)
        self.spec = self.B.spec(r) if r is not None else None
        self.targets = []

    def target(self, i):
        src = self.case['sources'][i]
        c = src['container']
        nid = 100 + i
        if c in ('simiter', 'simlist', 'list', 'tuple', 'gen'):
            t = self.B.value({'t': c, 'n': nid, 'v': src['items']})
        elif c == 'recycle':
            # a one-shot stream that re-uses ONE container for every item (a cursor, a parser's row
            # buffer): each item is only valid until the next one is asked for
            vals = [self.B.value(x) for x in src['items']]

            def recycle(vals=vals):
                box = None
                for v in vals:
                    if box is None:
                        box = type(v)()
                    box.clear()
                    box.extend(v) if isinstance(box, list) else box.update(v)
                    yield box
            t = recycle()
        else:
            raise ValueError(c)
        self.elems = getattr(self, 'elems', {})
        self.elems[i] = t
        if self.case['with_sub']:
            t = {'k': t}
        return t

    def thunk(self, target):
        G, kind = self.G, self.case['kind']
        if kind == 'flatten_fn':
            return lambda: G.flatten(target)
        if kind == 'merge_fn':
            return lambda: G.merge(target)
        if kind == 'flatten_levels2':
            return lambda: G.flatten(target, levels=2)
        if kind == 'flatten_levels2_int':
            return lambda: G.flatten(target, levels=2, init=int)
        if kind == 'flatten_levels2_tuple':
            return lambda: G.flatten(target, levels=2, init=tuple)
        if kind == 'flatten_levels0':
            return lambda: list(G.flatten(target, levels=0))
        if kind == 'flatten_levels3':
            return lambda: G.flatten(target, levels=3)
        if kind == 'flatten_lazy':
            return lambda: list(G.glom(target, self.spec))
        return lambda: G.glom(target, self.spec)

    def init_calls(self):
        return sum(1 for e in self.k.log if e[1] == 'p7')


def _items_of(t):
    """the element objects of a built source (C-level access)"""
    tn = type(t).__name__
    if tn == 'SimIter':
        return list(t._items)
    if isinstance(t, list):
        return list(list.__iter__(t))
    if isinstance(t, tuple):
        return list(t)
    return []


def _check_eval(V, st, W, case, i, target, res, snap_before, prev_results, desc):
    kind = case['kind']
    exp = reference(kind, case['sources'][i]['items'])
    if res[0] != 'ok':
        V('reduction-result', f'raised/{kind}', canon.canon(exp), canon.outcome(res, with_text=False))
        return
    val = res[1]
    if canon.canon(val) != canon.canon(exp):
        V('reduction-result', f'{desc}/{kind}', canon.canon(exp), canon.canon(val))
    inner = W.elems.get(i)
    if inner is not None and type(inner).__name__ != 'generator':
        after = canon.snapshot(inner)
        if not canon.snap_equal(snap_before, after):
            V('inputs-untouched', f'{desc}/{kind}', 'input elements unchanged', canon.snap_diff(snap_before, after))
        if isinstance(val, (list, dict)):
            for el in _items_of(inner):
                if el is val:
                    V('no-shared-state', f'result-is-an-input-element/{kind}', 'a fresh accumulator', 'input element returned')
    if isinstance(val, (list, dict)) and kind != 'fold_add_shared_start':
        # (with a shared start object and nothing to fold, the result IS the start object: the
        # workload's doing; what matters there is that the start object never changes: a change shows in the next evaluation's result)
        for p in prev_results:
            if p is val:
                V('no-shared-state', f'same-accumulator-object-across-evaluations/{kind}', 'distinct objects', 'identical')
        prev_results.append(val)


def run_case(case, gen_rng=None):
    viols = []
    stats = {'mode_' + case['mode']: 1}
    mode = case['mode']
    kind = case['kind']

    def V(clause, detail, expected, observed):
        viols.append({'clause': clause, 'sig': f'{clause}/{detail}', 'expected': expected, 'observed': observed})

    def st(n_, x=1):
        stats[n_] = stats.get(n_, 0) + x
    faults = None
    if mode == 'fault':
        faults = {f'0:o100.next#{case["fault_at"]}': {'cls': case['fault_cls']}}
    W = World(case, faults=faults, gen_rng=gen_rng if mode == 'interleave' else None)
    G = W.G
    prev = []
    uses_probe_init = kind.endswith('probe_init') or kind == 'merge_factory_odict'
    try:
        if mode in ('repeat', 'fault', 'lazy'):
            order = list(range(len(case['sources'])))
            for i in order:
                t = W.target(i)
                snap = canon.snapshot(W.elems[i])
                n0 = W.init_calls()
                if mode == 'lazy' and i == 0:
                    # consume partly, abandon
                    def partial():
                        it = G.glom(t, W.spec)
                        out = list(itertools.islice(it, case['k']))
                        del it
                        gc.collect()
                        return out
                    res = W.k.run_single(partial)
                    exp = reference(kind, case['sources'][0]['items'])[:case['k']]
                    st('reach.lazy_abandoned')
                    if res[0] != 'ok' or canon.canon(res[1]) != canon.canon(exp):
                        V('reduction-result', 'lazy-prefix', canon.canon(exp), canon.outcome(res, with_text=False))
                    continue
                res = W.k.run_single(W.thunk(t))
                st('evaluations')
                if mode == 'fault' and i == 0 and W.k.fired:
                    st('fault.' + case['fault_cls'])
                    st('reach.aborted_evaluation')
                    X = W.k.cat.cls(case['fault_cls'])
                    if res[0] != 'exc' or not isinstance(res[1], X):
                        if not (kind == 'flatten_lazy' and res[0] == 'ok'):
                            V('fault', f'source-fault-class-lost/{kind}', case['fault_cls'], canon.outcome(res, with_text=False))
                    after = canon.snapshot(W.elems[i])
                    if not canon.snap_equal(snap, after):
                        V('inputs-untouched', f'after-fault/{kind}', 'unchanged', canon.snap_diff(snap, after))
                    continue
                _check_eval(V, st, W, case, i, t, res, snap, prev, mode)
                if uses_probe_init and W.init_calls() - n0 != 1:
                    V('init-afresh', f'init-calls-per-evaluation/{kind}', 1, W.init_calls() - n0)
        elif mode == 'interleave':
            n = case['ntasks']
            ts = [W.target(i) for i in range(n)]
            snaps = [canon.snapshot(W.elems[i]) for i in range(n)]
            thunks = []
            for i in range(n):
                thunks.append(W.thunk(ts[i]))
            n0 = W.init_calls()
            results = W.k.run_tasks(thunks)
            if gen_rng is not None:
                case['switches'] = {str(a): b for a, b in sorted(W.k.switches.items())}
            st('evaluations', n)
            st('switches', W.k.n_switches)
            if W.k.n_switches > n:
                st('reach.interleaved_at_source')
            for i in range(n):
                _check_eval(V, st, W, case, i, ts[i], results[i], snaps[i], prev, 'interleaved')
            if uses_probe_init and W.init_calls() - n0 != n:
                V('init-afresh', f'init-calls-interleaved/{kind}', n, W.init_calls() - n0)
        else:   # noniter
            bad = W.B.value(case['bad'])
            t = {'k': bad} if case['with_sub'] else bad
            res = W.k.run_single(W.thunk(t))
            st('evaluations')
            st('reach.non_iterable_target')
            ok = res[0] == 'exc' and isinstance(res[1], G.FoldError)
            if not ok:
                V('non-iterable', f'not-a-FoldError/{kind}', 'FoldError', canon.outcome(res, with_text=False))
            # and a healthy evaluation afterwards
            t0 = W.target(0)
            snap = canon.snapshot(W.elems[0])
            res = W.k.run_single(W.thunk(t0))
            _check_eval(V, st, W, case, 0, t0, res, snap, prev, 'after-non-iterable')
    except SimBudgetExceeded:
        st('budget_exceeded')
    d = W.k.digest()
    for v in viols:
        v['digest'] = d
    shape = simrun.jhash([kind, case['sources'], mode, case.get('switches'), case.get('fault_at')])
    nontrivial = len(case['sources']) >= 2 or mode in ('fault', 'lazy')
    return {'violations': viols, 'digest': d, 'stats': stats, 'shape': shape, 'nontrivial': nontrivial,
            'events': len(W.k.log)}


def run_seed(seed, tier):
    case = gen_case(seed, tier)
    rng = random.Random(seed ^ 0x15C15)
    r = run_case(case, gen_rng=rng)
    out = {'runs': max(1, r['stats'].get('evaluations', 1)), 'events': r['events'], 'lines': 0, 'stats': r['stats'],
           'shapes': [r['shape']] if r['nontrivial'] else [], 'violations': [], 'harness_errors': [],
           'trace_digests': [r['digest']]}
    if case['mode'] == 'interleave' and (seed % 4 == 0 or r['violations']):
        r2 = run_case(copy.deepcopy(case))
        out['stats']['replay_checked'] = 1
        if r2['digest'] != r['digest']:
            out['harness_errors'].append([seed, 'replay digest mismatch'])
    for v in r['violations']:
        out['violations'].append(dict(v, case=case))
    if seed % 500 == 0:
        out['sample'] = {'seed': seed, 'kind': case['kind'], 'mode': case['mode'], 'sources': case['sources'][:2],
                         'switches': case.get('switches')}
    return out
