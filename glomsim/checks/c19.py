"""C19 — the CLI prints what the library computes; default-format specs never execute.

System: ``glom.cli.main(argv)`` of a private instance, run in-process with the process boundary
stubbed: ``open`` in glom.cli's globals -> in-memory SimFS (with injectable errno faults, short and
undecodable content), ``sys.stdin`` -> SimStdin (content, tty flag, closed flag, fault at read),
stdout/stderr captured, SystemExit -> exit status.  A seeded share of runs is repeated as a real
``python -m glom`` subprocess with real temp files and pipes to validate that the stub boundary
behaves like the real one.
Oracle: fault-free => stdout == json.dumps(glom(target, spec), indent=indent or None,
sort_keys=True) + "\\n", status 0, identically across channels; GlomError => status 1 and stdout
starting with the error class name; unreadable / malformed TARGET => usage error (non-zero status,
message on stderr, no result on stdout, no uncaught exception).  The "never executed" clause is
input sampling (said so in the evidence): exec/eval/compile/_eval_python_full_spec in glom.cli are
tripwired and hostile spec texts carry a canary side effect.
"""
import ast
import errno
import io
import json
import os
import random
import shutil
import subprocess
import sys
import tempfile

from .. import simrun, canon, loader

PROP = 'C19'
LEVEL = 'exploration'
RULE = ('seeded CLI invocations: JSON-representable targets rendered as json / python / yaml / toml, '
        'literal specs (paths, nested dict/list/tuple), --indent / --scalar / --target-format / '
        '--spec-format, spec and target each routed through argv / file / stdin, with per-channel faults '
        '(ENOENT, EACCES, EISDIR at open; EIO at read; undecodable bytes; empty; tty; closed stdin; '
        'truncated or malformed text); plus a hostile-spec corpus through every channel (input '
        'sampling); distinct = hash(invocation, fault); non-trivial = a fault was injected or the run '
        'used a file/stdin channel')
ASSUMPTIONS = [
    'the stub boundary (SimFS / SimStdin / captured stdout) behaves like the real process boundary '
    '(validated on a seeded sample against real `python -m glom` subprocesses)',
    'json / ast.literal_eval / yaml.safe_load / tomllib are trusted as parsers of the rendered target',
    'the "never executed" clause is covered only as input sampling with tripwires and a canary',
]


def budget(tier):
    if tier == 'thorough':
        return {'seeds': 400000, 'wall': 900, 'chunk': 100}
    return {'seeds': 30000, 'wall': 200, 'chunk': 50}


# ------------------------------------------------------------------------------------ workload

def gen_value(rng, depth=0, toml=False):
    r = rng.random()
    if depth >= 2 or r < 0.3:
        c = rng.random()
        if c < 0.4:
            return rng.randint(-5, 99)
        if c < 0.7:
            return rng.choice(['x', 'hello', 'é', 'a b', ''])
        if c < 0.8:
            return rng.choice([True, False])
        if c < 0.9 and not toml:
            return None
        return rng.choice([0.5, 2.25])
    if r < 0.65:
        keys = rng.sample(['a', 'b', 'c', 'd'], rng.randint(1, 3))
        return {k: gen_value(rng, depth + 1, toml) for k in keys}
    n = rng.randint(0, 3)
    if toml:
        # TOML arrays: keep them homogeneous enough for every TOML version
        kind = rng.choice(['int', 'str', 'dict'])
        if kind == 'int':
            return [rng.randint(0, 9) for _ in range(n)]
        if kind == 'str':
            return [rng.choice(['x', 'y']) for _ in range(n)]
        return [{'a': rng.randint(0, 9)} for _ in range(n)]
    return [gen_value(rng, depth + 1, toml) for _ in range(n)]


def gen_target(rng, fmt):
    keys = rng.sample(['a', 'b', 'c', 'd'], rng.randint(1, 4))
    return {k: gen_value(rng, 1, toml=(fmt == 'toml')) for k in keys}


def gen_spec(rng, target, depth=0):
    """literal spec (python value) following the target's shape"""
    keys = [k for k in target] if isinstance(target, dict) else []
    r = rng.random()
    if rng.random() < 0.04:
        # literals that are not specs: the library fails with a wrapped non-glom exception (IndexError
        # for [], TypeError for a number / None), which is a GlomError all the same
        # (at the top level only []: in the default format a bare number is taken as a path string)
        return rng.choice([[], 1, None, 2.5]) if depth else []
    if depth >= 2 or r < 0.35:
        if keys and rng.random() < 0.85:
            k = rng.choice(keys)
            sub = target[k]
            if isinstance(sub, dict) and sub and rng.random() < 0.5:
                return f'{k}.{rng.choice(list(sub))}'
            if isinstance(sub, list) and sub and rng.random() < 0.4:
                return f'{k}.{rng.randrange(len(sub))}'
            return k
        # (bare texts that are path strings although they would also parse as Python constants)
        return rng.choice(['zz', 'a.zz', 'a.0', '0', '1', 'None', 'True', '1.0', '0x1'])
    if r < 0.7:
        names = rng.sample(['zeta', 'out0', 'mid', 'alpha', 'out1', 'b'], rng.randint(1, 3))   # not in sorted order
        return {nm: gen_spec(rng, target, depth + 1) for nm in names}
    if r < 0.85:
        lists = [k for k in keys if isinstance(target[k], list)]
        if lists:
            k = rng.choice(lists)
            elem = target[k][0] if target[k] else None
            inner = gen_spec(rng, elem, depth + 1) if isinstance(elem, dict) else None
            return (k, [inner]) if inner is not None else (k, [{'v': 'a'}] if isinstance(elem, dict) else k)
        return gen_spec(rng, target, depth + 1)
    return (gen_spec(rng, target, depth + 1),)


def toml_dumps(d):
    def val(v):
        if isinstance(v, bool):
            return 'true' if v else 'false'
        if isinstance(v, (int, float)):
            return repr(v)
        if isinstance(v, str):
            return json.dumps(v)
        if isinstance(v, list):
            return '[' + ', '.join(val(x) for x in v) + ']'
        if isinstance(v, dict):
            return '{' + ', '.join(f'{k} = {val(x)}' for k, x in v.items()) + '}'
        raise ValueError(v)
    return '\n'.join(f'{k} = {val(v)}' for k, v in d.items()) + '\n'


def render_target(value, fmt):
    if fmt == 'json':
        return json.dumps(value)
    if fmt == 'python':
        return repr(value)
    if fmt in ('yaml', 'yml'):
        import yaml
        return yaml.safe_dump(value, allow_unicode=True)
    if fmt == 'toml':
        return toml_dumps(value)
    raise ValueError(fmt)


def parse_target(text, fmt):
    if not text:
        return {}
    if fmt == 'json':
        return json.loads(text)
    if fmt == 'python':
        return ast.literal_eval(text)
    if fmt in ('yaml', 'yml'):
        import yaml
        return yaml.safe_load(text)
    import tomllib
    return tomllib.loads(text)


HOSTILE = [
    '__import__("os").environ.update(GLOMSIM_CANARY="1")',
    '(__import__("os").environ.update(GLOMSIM_CANARY="1"), "a")',
    '[__import__("os").environ.update(GLOMSIM_CANARY="1") for _ in (1,)]',
    '{"k": __import__("os").environ.update(GLOMSIM_CANARY="1")}',
    '(lambda: __import__("os").environ.update(GLOMSIM_CANARY="1"))()',
    '"a".__class__.__mro__[-1].__subclasses__()',
    '().__class__.__bases__[0].__subclasses__()',
    'T["a"].__class__',
    "[x for x in ().__class__.__base__.__subclasses__()]",
    '"%s" % __import__("os").environ.update(GLOMSIM_CANARY="1")',
    'f"{__import__(\'os\').environ.update(GLOMSIM_CANARY=\'1\')}"',
    'exec("import os; os.environ[\'GLOMSIM_CANARY\']=\'1\'")',
    '{"a": (lambda t: t)}',
    'a.__import__("os")',
    'os.environ.update(GLOMSIM_CANARY="1")',
]

TARGET_FAULTS = ['enoent', 'eacces', 'eisdir', 'eio_read', 'undecodable', 'truncated', 'malformed',
                 'stdin_closed', 'stdin_eio', 'stdin_undecodable']


def gen_case(seed, tier):
    rng = random.Random(seed)
    fmt = rng.choice(['json', 'json', 'python', 'yaml', 'toml'])
    target = gen_target(rng, fmt)
    mode = rng.choice(['plain', 'plain', 'plain', 'fault', 'fault', 'hostile', 'empty', 'falsy'])
    spec = gen_spec(rng, target)
    if fmt == 'python' and rng.random() < 0.5:
        # a Python-literal target may hold tuples: collections all the same (JSON arrays when printed)
        target = _tuplify(rng, target)
    if fmt in ('python', 'yaml') and rng.random() < 0.3:
        # Python-literal and YAML targets may have NUMERIC keys: printed the way json.dumps sorts and writes them
        target = _intkeyify(rng, target, top=True)
    if not isinstance(spec, (str, dict, list, tuple)):
        spec = []           # (a bare number / None as the whole spec text would be read as a path string)
    if mode == 'falsy':
        # a falsy TOP-LEVEL document is a target like any other
        fmt = rng.choice(['json', 'yaml', 'python', 'yaml'])
        target = rng.choice([[], 0, False, '', None, 0.0])
        spec = rng.choice(['', 'T-free-path'])
        mode = 'plain'
    spec_format = rng.choice(['python', 'python', 'python', 'json'])
    if spec_format == 'json':
        spec = json.loads(json.dumps(_jsonable_spec(spec)))
    if spec in ('', 'T-free-path'):
        spec_format = 'python'
    case = {'prop': PROP, 'seed': seed, 'fmt': fmt, 'target': target, 'spec': _tag_tuples(spec), 'spec_format': spec_format,
            'spec_channel': rng.choice(['argv', 'argv', 'file']),
            'target_channel': rng.choice(['argv', 'file', 'stdin-dash', 'stdin-implicit', 'file-dash']),
            'indent': rng.choice([None, None, 0, 2, 4]), 'scalar': rng.random() < 0.25, 'mode': mode,
            'real_subprocess': seed % (200 if tier == 'quick' else 60) == 0,
            'knobs': simrun.draw_knobs(rng),
            'decoy_file': rng.random() < 0.15,
            'spec_file_name': rng.choice(['/sim/spec.txt', '/sim/spec.txt', '/sim/spec.py', '/sim/spec.json',
                                          '/sim/spec.glom', '/sim/spec', '/sim/SPEC.PY', '/sim/spec.yaml'])}
    if case['real_subprocess']:
        case['knobs']['trace_width'] = 78       # what a real process without a terminal gets
    if mode == 'fault':
        f = rng.choice(TARGET_FAULTS)
        case['fault'] = f
        if f in ('enoent', 'eacces', 'eisdir', 'eio_read', 'undecodable'):
            case['target_channel'] = 'file'
        elif f.startswith('stdin'):
            case['target_channel'] = rng.choice(['stdin-dash', 'stdin-implicit'])
        if rng.random() < 0.2 and f in ('enoent', 'eacces', 'eio_read', 'undecodable'):
            case['fault_on'] = 'spec'
            case['spec_channel'] = 'file'
            case['target_channel'] = 'argv'
    elif mode == 'hostile':
        case['hostile'] = rng.choice(HOSTILE)
        case['spec_format'] = 'python'
    elif mode == 'empty':
        case['empty'] = rng.choice(['target-empty-file', 'stdin-empty', 'stdin-tty', 'no-spec'])
        if case['empty'] == 'target-empty-file':
            case['target_channel'] = 'file'
        elif case['empty'] in ('stdin-empty', 'stdin-tty'):
            case['target_channel'] = 'stdin-implicit'
    return case


def _jsonable_spec(s):
    if isinstance(s, tuple):
        return [_jsonable_spec(x) for x in s]
    if isinstance(s, dict):
        return {k: _jsonable_spec(v) for k, v in s.items()}
    if isinstance(s, list):
        return [_jsonable_spec(x) for x in s]
    return s


def _tuplify(rng, v):
    if isinstance(v, dict):
        return {k: _tuplify(rng, x) for k, x in v.items()}
    if isinstance(v, list):
        items = [_tuplify(rng, x) for x in v]
        return {'__tuple__': items} if rng.random() < 0.6 else items
    return v


def _intkeyify(rng, v, top=False):
    if isinstance(v, dict) and '__tuple__' not in v:
        if not top and rng.random() < 0.5:
            vals = [_intkeyify(rng, x) for x in v.values()] or [0]
            keys = rng.sample([2, 10, 9, 100, 1], min(len(vals) + 1, 4))
            return {'__intkeys__': [[k, vals[i % len(vals)]] for i, k in enumerate(keys)]}
        return {k: _intkeyify(rng, x) for k, x in v.items()}
    if isinstance(v, list):
        return [_intkeyify(rng, x) for x in v]
    return v


def _tag_tuples(s):
    """make tuples JSON-able for the replay file"""
    if isinstance(s, tuple):
        return {'__tuple__': [_tag_tuples(x) for x in s]}
    if isinstance(s, dict):
        return {k: _tag_tuples(v) for k, v in s.items()}
    if isinstance(s, list):
        return [_tag_tuples(x) for x in s]
    return s


def _untag(s):
    if isinstance(s, dict):
        if set(s) == {'__tuple__'}:
            return tuple(_untag(x) for x in s['__tuple__'])
        if set(s) == {'__intkeys__'}:
            return {k: _untag(x) for k, x in s['__intkeys__']}
        return {k: _untag(v) for k, v in s.items()}
    if isinstance(s, list):
        return [_untag(x) for x in s]
    return s


# ------------------------------------------------------------------------------------ boundary stubs

class SimFile:
    def __init__(self, log, path, content, read_fault=None, encoding='utf-8', errors='strict'):
        self.log, self.path, self.content, self.read_fault = log, path, content, read_fault
        self.encoding, self.errors = encoding or 'utf-8', errors or 'strict'
        self.closed = False

    def read(self, *a):
        self.log.append(['read', self.path])
        if self.read_fault == 'eio':
            raise OSError(errno.EIO, 'Input/output error')
        c = self.content
        if isinstance(c, bytes):
            return c.decode(self.encoding, self.errors)     # raises UnicodeDecodeError like a real text-mode read
        return c

    def close(self):
        self.closed = True

    def __enter__(self):
        return self

    def __exit__(self, *a):
        self.close()


class SimFS:
    def __init__(self, log):
        self.log = log
        self.files = {}
        self.errors = {}
        self.read_faults = {}

    def open(self, path, mode='r', *a, **kw):
        self.log.append(['open', path, mode])
        e = self.errors.get(path)
        if e == 'enoent' or (e is None and path not in self.files):
            raise FileNotFoundError(errno.ENOENT, 'No such file or directory', path)
        if e == 'eacces':
            raise PermissionError(errno.EACCES, 'Permission denied', path)
        if e == 'eisdir':
            raise IsADirectoryError(errno.EISDIR, 'Is a directory', path)
        return SimFile(self.log, path, self.files[path], self.read_faults.get(path),
                       encoding=kw.get('encoding') or (a[1] if len(a) > 1 else None), errors=kw.get('errors'))


class SimOS:
    """the ``os`` module as the CLI sees it: questions about files are answered by the simulated file system
    (the process's working directory is the root of it), everything else by the real module"""

    class _Path:
        def __init__(self, fs):
            self._fs = fs

        def _known(self, p):
            return isinstance(p, str) and p in self._fs.files and self._fs.errors.get(p) != 'enoent'

        def exists(self, p):
            self._fs.log.append(['stat', p])
            return self._known(p)

        def isfile(self, p):
            self._fs.log.append(['stat', p])
            return self._known(p) and self._fs.errors.get(p) != 'eisdir'

        def isdir(self, p):
            self._fs.log.append(['stat', p])
            return self._known(p) and self._fs.errors.get(p) == 'eisdir'

        def __getattr__(self, name):
            return getattr(os.path, name)

    def __init__(self, fs):
        self.path = SimOS._Path(fs)

    def __getattr__(self, name):
        return getattr(os, name)


class SimStdin(io.StringIO):
    def __init__(self, log, text, tty=False, closed=False, fault=None):
        super().__init__(text if isinstance(text, str) else '')
        self.log, self._tty, self._fault, self._raw = log, tty, fault, text
        if closed:
            self.close()

    def isatty(self):
        self.log.append(['isatty', self._tty])
        if self.closed:
            raise ValueError('I/O operation on closed file')
        return self._tty

    def read(self, *a):
        self.log.append(['stdin.read'])
        if self._fault == 'eio':
            raise OSError(errno.EIO, 'Input/output error')
        if isinstance(self._raw, bytes):
            return self._raw.decode('utf-8')
        return super().read(*a)


class Trip:
    def __init__(self, log, name, real):
        self.log, self.name, self.real = log, name, real

    def __call__(self, *a, **kw):
        self.log.append(['TRIPWIRE', self.name])
        return self.real(*a, **kw)


# ------------------------------------------------------------------------------------ one invocation

def build_invocation(case):
    """-> argv, files {path: content}, stdin spec, expected inputs"""
    fmt = case['fmt']
    target_text = render_target(_untag(case['target']) if fmt in ('python', 'yaml') else case['target'], fmt)
    spec = _untag(case['spec'])
    if case['spec_format'] == 'json':
        spec_text = json.dumps(spec)
    else:
        spec_text = spec if isinstance(spec, str) and spec[:1] not in '"\'[{(' and case.get('bare_spec', True) else repr(spec)
    if case['mode'] == 'hostile':
        spec_text = case['hostile']
    argv = ['glom']
    files = {}
    errors = {}
    read_faults = {}
    stdin = {'text': '', 'tty': True, 'closed': False, 'fault': None}
    fault = case.get('fault') if case.get('fault_on') != 'spec' else None
    sfault = case.get('fault') if case.get('fault_on') == 'spec' else None
    if fmt != 'json' or case['seed'] % 3 == 0:
        argv += ['--target-format', fmt]
    if case['spec_format'] != 'python':
        argv += ['--spec-format', case['spec_format']]
    if case['indent'] is not None:
        argv += ['--indent', str(case['indent'])]
    if case['scalar']:
        argv += ['--scalar']
    no_spec = case.get('empty') == 'no-spec' or spec in ('', 'T-free-path')
    # target text under faults
    if fault == 'truncated':
        target_text = target_text[:max(1, len(target_text) // 2)]
        if fmt in ('yaml', 'toml'):
            target_text = target_text + ('\n  - : [' if fmt == 'yaml' else '\n= = [')
    elif fault == 'malformed':
        target_text = {'json': random.Random(case['seed']).choice(
                           ['{"a": 1,,}', '{"a": 1,}', "{'a': 1}", '{a: 1}', '[1, 2,]', '{"a": tru}', '{"a": 1} # note', 'abc']),
                       'python': '{"a": }', 'yaml': 'a: [1, 2\nb: }', 'toml': 'a = = 1'}[fmt]
    if case.get('empty') in ('target-empty-file', 'stdin-empty'):
        target_text = ''
    posargs = []
    # (what a spec file is called never decides how its text is read: the format is --spec-format)
    sname = case.get('spec_file_name', '/sim/spec.txt')
    if case['spec_channel'] == 'file' and not no_spec:
        argv += ['--spec-file', sname]
        files[sname] = spec_text
        if sfault in ('enoent', 'eacces'):
            errors[sname] = sfault
        elif sfault == 'eio_read':
            read_faults[sname] = 'eio'
        elif sfault == 'undecodable':
            files[sname] = b'\xff\xfe' + spec_text.encode()
    elif not no_spec:
        posargs.append(spec_text)
    ch = case['target_channel']
    if ch == 'argv':
        if not posargs:
            posargs.append('')       # an empty spec argument so that the target is the 2nd positional
        posargs.append(target_text)
    elif ch in ('file', 'file-dash'):
        if ch == 'file-dash':
            argv += ['--target-file', '-']
            stdin.update(text=target_text, tty=False)
        else:
            argv += ['--target-file', '/sim/target.dat']
            files['/sim/target.dat'] = target_text
            if fault in ('enoent', 'eacces', 'eisdir'):
                errors['/sim/target.dat'] = fault
            elif fault == 'eio_read':
                read_faults['/sim/target.dat'] = 'eio'
            elif fault == 'undecodable':
                if case['seed'] % 2 and fmt in ('json', 'python'):
                    # latin-1 bytes inside a string value: invalid UTF-8, but text that parses once replaced
                    files['/sim/target.dat'] = json.dumps({'a': 'caf\u00e9', 'b': 1}).replace('\\u00e9', '\u00e9').encode('latin-1') \
                        if fmt == 'json' else repr({'a': 'caf\u00e9', 'b': 1}).encode('latin-1')
                else:
                    files['/sim/target.dat'] = b'\xff\xfe' + target_text.encode()
    elif ch == 'stdin-dash':
        if not posargs:
            posargs.append('')
        posargs.append('-')
        stdin.update(text=target_text, tty=False)
    else:   # stdin-implicit: no target argument, stdin is not a tty
        stdin.update(text=target_text, tty=(case.get('empty') == 'stdin-tty'))
    if fault == 'stdin_closed':
        stdin['closed'] = True
    elif fault == 'stdin_eio':
        stdin['fault'] = 'eio'
    elif fault == 'stdin_undecodable':
        stdin['text'] = b'\xff\xfe' + target_text.encode()
    argv += posargs
    if case.get('decoy_file'):
        # a file in the working directory whose NAME is one of the positional arguments: an argument is
        # the spec / the target itself, never the name of something to read
        for a in posargs:
            if a and '/' not in a and '\x00' not in a and len(a.encode()) < 120 and a not in ('-', '.', '..') and a not in files:
                files[a] = '{"decoy": "this file must not be read"}'
    return {'argv': argv, 'files': files, 'errors': errors, 'read_faults': read_faults, 'stdin': stdin,
            'target_text': target_text, 'spec_text': spec_text, 'no_spec': no_spec}


def run_inprocess(G, inv):
    cli = G.cli
    log = []
    fs = SimFS(log)
    fs.files, fs.errors, fs.read_faults = dict(inv['files']), dict(inv['errors']), dict(inv['read_faults'])
    g = cli.__dict__
    saved = {n: g.get(n, None) for n in ('open', 'exec', 'eval', 'compile', '_eval_python_full_spec', '_compile_code', 'os')}
    import builtins
    g['open'] = fs.open
    g['os'] = SimOS(fs)
    g['exec'] = Trip(log, 'exec', builtins.exec)
    g['eval'] = Trip(log, 'eval', builtins.eval)
    g['compile'] = Trip(log, 'compile', builtins.compile)
    for n in ('_eval_python_full_spec', '_compile_code'):
        if saved[n] is not None:
            g[n] = Trip(log, n, saved[n])
    out, err = io.StringIO(), io.StringIO()
    si = inv['stdin']
    old = (sys.stdin, sys.stdout, sys.stderr)
    os.environ.pop('GLOMSIM_CANARY', None)
    sys.stdin, sys.stdout, sys.stderr = SimStdin(log, si['text'], si['tty'], si['closed'], si['fault']), out, err
    try:
        try:
            rc = cli.main(list(inv['argv']))
            res = ['return', rc]
        except SystemExit as e:
            res = ['exit', e.code if isinstance(e.code, int) or e.code is None else 1]
        except BaseException as e:
            res = ['uncaught', type(e).__name__, canon.norm_text(str(e))[:160]]
    finally:
        sys.stdin, sys.stdout, sys.stderr = old
        for n, v in saved.items():
            if v is None:
                g.pop(n, None)
            else:
                g[n] = v
    canary = os.environ.pop('GLOMSIM_CANARY', None) is not None
    return {'res': res, 'stdout': out.getvalue(), 'stderr': err.getvalue(), 'log': log, 'canary': canary}


def status_of(r):
    res = r['res']
    if res[0] == 'return':
        return res[1] or 0
    if res[0] == 'exit':
        return res[1] if res[1] is not None else 0
    return 'uncaught'


def run_real(case, inv):
    """the same invocation as a real subprocess with real files and pipes"""
    td = tempfile.mkdtemp(prefix='glomsim_cli_', dir='/tmp')
    try:
        argv = []
        for a in inv['argv'][1:]:
            argv.append(a.replace('/sim/', td + '/'))
        for p, c in inv['files'].items():
            rp = p.replace('/sim/', td + '/') if p.startswith('/sim/') else os.path.join(td, p)
            e = inv['errors'].get(p)
            if e == 'enoent':
                continue
            if e == 'eisdir':
                os.mkdir(rp)
                continue
            with open(rp, 'wb') as f:
                f.write(c if isinstance(c, bytes) else c.encode('utf-8'))
            if e == 'eacces':
                os.chmod(rp, 0)
        if inv['read_faults'] or inv['stdin']['fault'] or inv['stdin']['closed'] or inv['stdin']['tty'] \
                or (os.geteuid() == 0 and 'eacces' in inv['errors'].values()):
            return None      # not reproducible with plain files/pipes (EIO, closed/tty stdin, root ignores modes)
        si = inv['stdin']
        data = si['text'] if isinstance(si['text'], bytes) else si['text'].encode('utf-8')
        env = dict(os.environ, PYTHONPATH=loader.glom_src(), PYTHONHASHSEED='0', COLUMNS='80',
                   PYTHONIOENCODING='utf-8')
        p = subprocess.run([sys.executable, '-m', 'glom'] + argv, input=data, capture_output=True, env=env,
                           timeout=60, cwd=td)
        return {'status': p.returncode, 'stdout': p.stdout.decode('utf-8', 'replace'),
                'stderr': p.stderr.decode('utf-8', 'replace').replace(td + '/', '/sim/')}
    finally:
        shutil.rmtree(td, ignore_errors=True)


def run_case(case):
    viols = []
    stats = {'mode_' + case['mode']: 1}
    G = simrun.make_instance(dict(case['knobs'], path_star=True), extra=('glom.cli',))
    inv = build_invocation(case)
    r = run_inprocess(G, inv)
    st = status_of(r)
    mode = case['mode']

    def V(clause, detail, expected, observed):
        viols.append({'clause': clause, 'sig': f'{clause}/{detail}', 'expected': expected, 'observed': observed})
    stats['channel_spec_' + case['spec_channel']] = 1
    stats['channel_target_' + case['target_channel']] = 1
    stats['format_' + case['fmt']] = 1
    if any(e[0] == 'isatty' and e[1] for e in r['log']):
        stats['reach.stdin_tty_branch'] = 1
    tripped = [e[1] for e in r['log'] if e[0] == 'TRIPWIRE']
    if case['spec_format'] != 'python-full' and (tripped or r['canary']):
        V('never-executed', 'tripwire-' + (tripped[0] if tripped else 'canary'), 'spec text only parsed as a literal or taken as a path',
          {'tripped': tripped, 'canary': r['canary']})
    if mode == 'hostile':
        stats['hostile_specs'] = 1
    elif mode in ('plain', 'empty'):
        # expected from the library itself
        try:
            tval = parse_target(inv['target_text'] if not (case.get('empty') == 'stdin-tty') else '', case['fmt'])
        except Exception:
            tval = None
        spec = _untag(case['spec'])
        if inv['no_spec']:
            spec = G.Path()
        try:
            result = G.glom(tval, spec)
            exp_err = None
        except G.GlomError as e:
            exp_err = e
        if exp_err is None:
            try:
                from boltons.iterutils import is_scalar
                if case['scalar'] and is_scalar(result):
                    exp_out = str(result)
                else:
                    exp_out = json.dumps(result, indent=(case['indent'] if case['indent'] else (None if case['indent'] == 0 else 2)) or None,
                                         sort_keys=True) + '\n'
            except TypeError:
                exp_out = None
            if exp_out is not None:
                if st != 0:
                    V('prints-library-result', f'status-{st}/{case["target_channel"]}/{case["fmt"]}', 0,
                      {'status': st, 'res': r['res'], 'stderr': r['stderr'][-200:]})
                elif r['stdout'] != exp_out:
                    V('prints-library-result', f'stdout-differs/{case["target_channel"]}/{case["fmt"]}'
                      + ('/scalar' if case['scalar'] else '') + f'/indent{case["indent"]}', exp_out[:400], r['stdout'][:400])
                stats['ok_results'] = 1
        else:
            stats['glomerror_results'] = 1
            name = type(exp_err).__name__
            if st != 1:
                V('glomerror-status', f'status-{st}', 1, {'status': st, 'res': r['res']})
            elif not r['stdout'].startswith(name + ':'):
                V('glomerror-status', 'message-does-not-name-the-error', name + ': ...', r['stdout'][:120])
    elif mode == 'fault':
        f = case['fault']
        stats['fault.' + f] = 1
        on_spec = case.get('fault_on') == 'spec'
        fired = _fault_fired(case, r, inv)
        if fired:
            stats['faults_fired'] = 1
            if not on_spec:
                if st == 'uncaught':
                    V('usage-error', f'uncaught-{r["res"][1]}/{f}', 'a usage error (non-zero status, message on stderr)',
                      r['res'])
                elif st == 0:
                    V('usage-error', f'status-0/{f}', 'non-zero status', {'stdout': r['stdout'][:200]})
                elif r['stdout'].strip():
                    V('usage-error', f'result-on-stdout/{f}', 'nothing on stdout', r['stdout'][:200])
            else:
                stats['spec_channel_faults'] = 1
    # ---- stub-vs-real boundary validation
    if case.get('real_subprocess'):
        real = run_real(case, inv)
        if real is not None:
            stats['real_subprocess_runs'] = 1
            sim_status = st if st != 'uncaught' else 1
            if real['status'] != sim_status or real['stdout'] != r['stdout']:
                V('stub-boundary', 'differs-from-real-process', {'status': real['status'], 'stdout': real['stdout'][:300]},
                  {'status': sim_status, 'stdout': r['stdout'][:300]})
    d = simrun.jhash([inv['argv'], r['res'], r['stdout'], r['log']])
    for v in viols:
        v['digest'] = d
    shape = simrun.jhash([case['fmt'], case['target'], case['spec'], case['spec_channel'], case['target_channel'],
                          case.get('fault'), case.get('hostile'), case.get('empty'), case['indent'], case['scalar']])
    nontrivial = mode != 'plain' or case['spec_channel'] != 'argv' or case['target_channel'] != 'argv'
    return {'violations': viols, 'digest': d, 'stats': stats, 'shape': shape, 'nontrivial': nontrivial,
            'events': len(r['log'])}


def _fault_fired(case, r, inv):
    f = case['fault']
    if f in ('truncated', 'malformed'):
        try:
            parse_target(inv['target_text'], case['fmt'])
            return False        # the damaged text happens to parse: not a fault
        except Exception:
            return True
    if f.startswith('stdin'):
        return any(e[0] in ('stdin.read', 'isatty') for e in r['log'])
    return any(e[0] in ('open', 'read') for e in r['log'])


def run_seed(seed, tier):
    case = gen_case(seed, tier)
    r = run_case(case)
    out = {'runs': 1 + r['stats'].get('real_subprocess_runs', 0), 'events': r['events'], 'lines': 0,
           'stats': r['stats'], 'shapes': [r['shape']] if r['nontrivial'] else [], 'violations': [],
           'harness_errors': [], 'trace_digests': [r['digest']]}
    for v in r['violations']:
        out['violations'].append(dict(v, case=case))
    if seed % 600 == 0:
        inv = build_invocation(case)
        out['sample'] = {'seed': seed, 'argv': inv['argv'], 'files': {k: (v if isinstance(v, str) else repr(v)) for k, v in inv['files'].items()},
                         'stdin': {k: (v if not isinstance(v, bytes) else repr(v)) for k, v in inv['stdin'].items()},
                         'mode': case['mode'], 'fault': case.get('fault')}
    return out
