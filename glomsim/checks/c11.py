"""C11 — assign obeys the lens laws and fails atomically.

Per seed: one (target graph, destination path, value, missing, api) item.  The fault-free run is
compared with the plain-Python reference edit on a shadow graph (models/pathedit.py); then EVERY
collaborator point of that run (accessors, mutators, factories, value-spec probes) is failed in
turn with an Exception class and with a BaseException class (enumerated single faults), and — line
tier — an exception is raised at every line event inside glom (crash points).  After each faulted
run: mutator / factory / value faults => error and target identical (ids, contents, sharing);
accessor faults and line crashes => state is *before* or *complete*, never partial.
"""
import copy
import random

from .. import simrun, canon, build
from ..kernel import SimBudgetExceeded, LineCrash, LineCrashBase
from ..models import pathedit
from . import _mut

PROP = 'C11'
LEVEL = 'fault_enumeration'
RULE = ('per seed one assignment item (random target graph incl. builtin subclasses, slotted / '
        'read-only / simulator-owned containers, shared nodes; destination in string / Path / T / '
        'mixed / S-rooted / wildcard style whose prefix exists or stops existing at each segment; '
        'literal / T / Spec / container-with-specs / self-referential value; missing in {None, dict, '
        'list, object factory, probe factories}); fault-free run vs plain-Python model, then every '
        'collaborator point x {Exception, BaseException} as single faults, and (a seeded share of '
        'items) every line event inside glom as a crash point; distinct = hash(item, fault); '
        'non-trivial = a fault or crash fired, or the fault-free run mutated the target')
ASSUMPTIONS = [
    'models/pathedit.py is the "corresponding plain Python nested item/attribute assignment"; builtin '
    'subclasses are treated like the builtin they derive from, except that the match set of a "*" step '
    'is glom\'s own (keys handler before iterate: a list subclass with an instance __dict__ is object-style)',
    'collaborators fail atomically (a faulted __setitem__ does not half-write)',
    'wildcard assignments are not required to be atomic (the statement excludes them)',
]


def budget(tier):
    if tier == 'thorough':
        return {'seeds': 70000, 'wall': 900, 'chunk': 100}
    return {'seeds': 5000, 'wall': 200, 'chunk': 50}


MISSING = [None, None, None, ['fn', 'dict'], ['fn', 'dict'], ['fn', 'list'], ['fn', 'objfactory'],
           ['probe', 900, 'fn', 'dict'], ['probe', 901, 'simdict'], ['fn', 'OrderedDict']]


def gen_item(seed, tier):
    rng = random.Random(seed)
    tg = _mut.TG(rng, sim=rng.choice([0.2, 0.5, 0.8]), exotic=rng.choice([0.1, 0.3]))
    target = tg.root()
    wild = rng.random() < 0.12
    segs, style = _mut.gen_segs(rng, target, allow_wild=wild)
    if rng.random() < 0.06:
        target = tg.hetero_root()
        segs, style = _mut.hetero_segs(rng)
    missing = rng.choice(MISSING) if not _mut.pathedit.has_wild(segs) else None
    r = rng.random()
    if r < 0.5:
        val = rng.choice([1, 'v', None, {'t': 'list', 'v': [1, 2]}, {'t': 'dict', 'v': [['k', 1]]},
                          {'t': 'obj', 'v': [['z', 1]]}, 0, '', False, {'t': 'list', 'v': []}, {'t': 'dict', 'v': []}])
    elif r < 0.62:
        val = {'t': 'spec', 'v': ['T', 'T', []]}                 # self-referential
    elif r < 0.78:
        vs, _ = _mut.gen_segs(rng, target, p_absent=0.15)
        vs = [[('[' if op == 'P' else op), (int(a) if isinstance(a, str) and a.lstrip('-').isdigit() and op == 'P' else a)] for op, a in vs]
        val = {'t': 'spec', 'v': ['T', 'T', [s for s in vs if s[0] in ('[', '.')]]}
    elif r < 0.9:
        val = {'t': 'dict', 'v': [['whole', {'t': 'spec', 'v': ['T', 'T', []]}], ['lit', 5],
                                  ['p', {'t': 'spec', 'v': ['Spec', ['probe', 950, 'tok']]}]]}
    else:
        val = {'t': 'spec', 'v': ['Spec', ['probe', 951, 'const', 'pv']]}
    api = rng.choice(['assign', 'assign', 'Assign', 'Assign-chain', 'S-rooted'])
    if api == 'S-rooted' and not all(op in ('[',) for op, _ in segs):
        api = 'assign'
    knobs = simrun.draw_knobs(rng)
    knobs['path_star'] = True
    line_tier = rng.random() < (0.25 if tier == 'thorough' else 0.08)
    return {'target': target, 'segs': segs, 'style': style, 'val': val, 'missing': missing,
            'api': api, 'knobs': knobs, 'line_tier': line_tier, 's_rooted_last': rng.random() < 0.5,
            'reused': rng.random() < 0.25}


def _factory_for_model(missing):
    from .. import collab
    from collections import OrderedDict
    if missing is None:
        return None
    if missing[0] == 'fn':
        return {'dict': dict, 'list': list, 'objfactory': collab.Obj, 'OrderedDict': OrderedDict}[missing[1]]
    if missing[0] == 'probe':
        return dict if missing[2] == 'fn' else collab.SimDict
    raise ValueError(missing)


def _arg_copy(v, memo=None):
    """what glom's argument mode does to a plain value: rebuild list/dict/tuple/set containers"""
    memo = {} if memo is None else memo
    t = type(v)
    if t in (list, dict):
        if id(v) in memo:
            return memo[id(v)]
        out = memo[id(v)] = t()
        if t is dict:
            out.update({_arg_copy(k, memo): _arg_copy(x, memo) for k, x in v.items()})
        else:
            out.extend(_arg_copy(x, memo) for x in v)
        return out
    if t in (tuple, set, frozenset):
        return t([_arg_copy(x, memo) for x in v])
    return v


def _model_value(val, shadow):
    """evaluate the value recipe against the shadow target -> (value, ok)"""
    B, root = shadow.B, shadow.root

    def ev(v):
        if isinstance(v, dict):
            t = v['t']
            if t == 'spec':
                sr = v['v']
                if sr[0] == 'Spec':
                    sr = sr[1]
                if sr[0] == 'T':
                    return pathedit.walk(root, sr[2])
                if sr[0] == 'probe':
                    if sr[2] == 'const':
                        return sr[3]
                    if sr[2] == 'tok':
                        return f'tok:0:{sr[1]}:0'
                raise NotImplementedError(sr)
            if t == 'dict':
                return {ev(k): ev(x) for k, x in v['v']}
            if t == 'list':
                return [ev(x) for x in v['v']]
            if t == 'tuple':
                return tuple(ev(x) for x in v['v'])
            return B.value(v)
        return v
    return ev(val)


class Run:
    def __init__(self, G, item, faults=None, line_crash=None, count_lines=False):
        self.G, self.item = G, item
        self.k = simrun.make_kernel(G, seed=0, faults=faults, line_crash=line_crash, count_lines=count_lines)
        self.B = build.Builder(G, self.k)
        self.target = self.B.value(item['target'])
        path = self.B.path_arg(_mut.render_path(item['segs'], item['style']))
        val = self.B.value(item['val'])
        missing = self.B.callable_(item['missing'])
        api = item['api']
        T, S = G.T, G.S
        self.before = canon.snapshot(self.target)
        self.before_ids = canon.snapshot_by_id(self.target)
        tgt = self.target
        if api == 'assign':
            th = lambda: G.assign(tgt, path, val, missing=missing)
        elif api == 'Assign':
            sp = G.Assign(path, val, missing=missing)
            th = lambda: G.glom(tgt, sp)
        elif api == 'Assign-chain':
            sp = (G.Assign(path, val, missing=missing), T)
            th = lambda: G.glom(tgt, sp)
        else:   # S-rooted: destination addressed through the scope
            if api != 'S-rooted' or not all(op == '[' for op, _ in item['segs']):
                raise ValueError(f'ill-formed item: api={api!r}')
            sp_path = S['x']
            for op, arg in item['segs']:
                sp_path = sp_path[arg]
            if item.get('s_rooted_last'):
                sp = (S(x=T), G.Assign(sp_path, val, missing=missing))      # the Assign's own return value
            else:
                sp = (S(x=T), G.Assign(sp_path, val, missing=missing), S['x'])
            th = lambda: G.glom(tgt, sp)
        if item.get('reused') and api != 'assign':
            # the SAME Assign object has already been evaluated once, on another target (a copy built
            # from the same recipe): nothing of that evaluation may show in this one
            k = self.k
            saved = (k.faults, k.line_crash, list(k.log), dict(k.counts), k.ln, list(k.fired))
            k.faults, k.line_crash = {}, None
            try:
                decoy = build.Builder(G, simrun.make_kernel(G, seed=0)).value(item['target'])
                k.run_single(lambda: G.glom(decoy, sp))
            finally:
                k.faults, k.line_crash = saved[0], saved[1]
                k.log[:] = saved[2]
                k.counts = saved[3]
                k.ln = saved[4]
                k.fired[:] = saved[5]
        self.res = self.k.run_single(th)
        self.after = canon.snapshot(self.target)
        self.after_ids = canon.snapshot_by_id(self.target)

    def unchanged(self):
        return canon.snap_equal(self.before, self.after)


def _alt_states(G, item):
    """end states that count as *complete* when an access fault was absorbed as "missing":
    the model edit with prefix segment i treated as absent, for every i"""
    out = []
    if not item['missing'] or pathedit.has_wild(item['segs']):
        return out
    for i in range(len(item['segs']) - 1):
        sh, verdict, mv = _model(G, item, absent_at=i)
        if verdict[0] == 'ok':
            out.append(canon.snap_struct(canon.snapshot(sh.root)))
    return out


class _Allowed:
    """lazily computed list of end states that count as complete"""
    def __init__(self, G, item, sh_after):
        self.G, self.item, self.sh_after, self.val = G, item, sh_after, None

    def __call__(self):
        if self.val is None:
            self.val = ([self.sh_after] if self.sh_after is not None else []) + _alt_states(self.G, self.item)
        return self.val


def _model(G, item, absent_at=None):
    sh = _mut.Shadow(G, item['target'])
    try:
        mv = _model_value(item['val'], sh)
    except pathedit.Absent:
        return sh, ('error', 'value spec fails'), None
    except NotImplementedError:
        return sh, ('dontcare', 'value'), None
    verdict = pathedit.model_assign(sh.root, item['segs'], mv, _factory_for_model(item['missing']), absent_at=absent_at)
    return sh, verdict, mv


def check_fault_free(G, item, stats):
    viols = []
    R = Run(G, item)
    sh, verdict, mv = _model(G, item)
    res = R.res

    def V(clause, detail, expected, observed):
        viols.append({'clause': clause, 'sig': f'{clause}/{detail}', 'expected': expected, 'observed': observed})
    desc = _describe(item)
    if verdict[0] == 'ok':
        stats['model_ok'] = stats.get('model_ok', 0) + 1
        if res[0] != 'ok':
            V('lens-effect', 'error-where-plain-python-succeeds/' + desc, 'success',
              canon.outcome(res, with_text=False))
        else:
            if res[1] is not R.target:
                V('lens-effect', 'returns-other-object/' + desc, 'the target itself', canon.canon(res[1])[:2])
            a, b = canon.snap_struct(R.after), canon.snap_struct(canon.snapshot(sh.root))
            if a == b and not pathedit.has_wild(item['segs']) and not (item['missing'] and verdict[1]):
                try:
                    dk = type(pathedit.walk(sh.root, item['segs'][:-1])).__name__
                except pathedit.Absent:
                    dk = None
                if dk in ('SimDict', 'SimList', 'SimObj') and not any(e[3] == 'set' for e in R.k.log):
                    V('lens-effect', 'container-own-set-method-bypassed/' + desc,
                      "the container's own __setitem__/__setattr__ is called", 'assigned without calling it')
            if a != b:
                why = 'state-differs-from-plain-python/' + desc
                if item['missing'] and verdict[1]:
                    # would the state match if the value had been re-evaluated (copied) on the way?
                    sh2 = _mut.Shadow(G, item['target'])
                    try:
                        mv2 = _arg_copy(_model_value(item['val'], sh2))
                        v2 = pathedit.model_assign(sh2.root, item['segs'], mv2, _factory_for_model(item['missing']))
                        if v2[0] == 'ok' and canon.snap_struct(canon.snapshot(sh2.root)) == a:
                            why = 'value-copied-when-missing-segments-are-created'
                    except Exception:
                        pass
                V('lens-effect', why, b, a)
            else:
                # untouched nodes keep identity and content: at most one pre-existing container changed
                if not pathedit.has_wild(item['segs']):
                    changed = [i for i in R.before_ids if i in R.after_ids and R.before_ids[i] != R.after_ids[i]]
                    if len(changed) > 1:
                        V('lens-effect', 'more-than-one-container-changed/' + desc, '<= 1', len(changed))
                    # factory call count (probe factories are observable)
                    if item['missing'] and item['missing'][0] == 'probe':
                        site = f'p{item["missing"][1]}'
                        calls = sum(1 for e in R.k.log if e[1] == site)
                        if calls != verdict[1]:
                            V('missing-factory', 'call-count/' + desc, verdict[1], calls)
                    # put-get through glom (fault-free kernel state: no fault plan here)
                    try:
                        back = G.glom(R.target, R.B.path_arg(_mut.render_path(item['segs'], item['style'])))
                        plain = pathedit.walk(R.target, item['segs'])
                        if back is not plain:
                            V('lens-effect', 'put-get/' + desc, 'glom reads back the assigned object', canon.canon(back))
                    except Exception as e:
                        V('lens-effect', 'put-get-raises/' + desc, 'reading the path back yields the value',
                          type(e).__name__)
    elif verdict[0] == 'error':
        stats['model_error'] = stats.get('model_error', 0) + 1
        if res[0] == 'ok':
            V('atomic-failure', 'success-where-plain-python-fails/' + desc, 'an error: ' + str(verdict[1])[:80],
              'success')
        elif not R.unchanged():
            V('atomic-failure', 'target-changed-on-error/' + desc, 'target left exactly as it was',
              canon.snap_diff(R.before, R.after))
    else:
        stats['model_' + verdict[0]] = stats.get('model_' + verdict[0], 0) + 1
        if res[0] == 'exc' and verdict[0] != 'partial' and not R.unchanged() and not pathedit.has_wild(item['segs']):
            V('atomic-failure', 'target-changed-on-error/' + desc, 'unchanged', canon.snap_diff(R.before, R.after))
    return R, sh, verdict, viols


def _describe(item):
    """a short structural description used in signatures (survives minimisation)"""
    kinds = []
    table = _mut.index_nodes(item['target'])
    cur = item['target']
    for op, arg in item['segs']:
        cur = _mut.resolve(cur, table)
        kinds.append(cur['t'] if isinstance(cur, dict) else type(cur).__name__)
        nxt = None
        if isinstance(cur, dict) and isinstance(cur.get('v'), list):
            if cur['t'] in ('dict', 'odict', 'mydict', 'slotdict', 'simdict', 'obj', 'simobj', 'roprop', 'slotted'):
                for kk, vv in cur['v']:
                    if kk == arg or str(kk) == str(arg):
                        nxt = vv
            elif op not in ('x', 'X'):
                try:
                    nxt = cur['v'][int(arg)]
                except Exception:
                    nxt = None
        cur = nxt
        if cur is None:
            break
    last = kinds[-1] if kinds else '?'
    return f'{item["segs"][-1][0]}-on-{last}' + ('/missing' if item['missing'] else '') + \
        ('/S-rooted' if item['api'] == 'S-rooted' else '')


def check_faulted(G, item, base, sh_after_struct, verdict, fault_key, cls, stats, allowed):
    """single collaborator fault at fault_key"""
    viols = []
    R = Run(G, item, faults={fault_key: {'cls': cls}})
    if not R.k.fired:
        return viols, R
    fk, _, sk = R.k.fired[0]
    kind = sk.get('kind', 'unknown')
    ev_kind = next((e[3] for e in R.k.log if len(e) > 5), None)
    stats['fault.' + cls] = stats.get('fault.' + cls, 0) + 1
    stats['reach.fault_at_' + kind] = stats.get('reach.fault_at_' + kind, 0) + 1
    desc = _describe(item)

    def V(clause, detail, expected, observed):
        viols.append({'clause': clause, 'sig': f'{clause}/{detail}', 'expected': expected, 'observed': observed})
    wild = pathedit.has_wild(item['segs'])
    evk = next((e[3] for e in R.k.log if len(e) > 5 and str(e[5]).startswith('FAULT')), '?')
    strict = evk in ('set', 'call') or not issubclass(R.k.cat.cls(cls), Exception)
    if R.res[0] == 'exc':
        if not R.unchanged() and not wild:
            V('atomic-failure', f'target-changed-after-{evk}-fault/' + desc, 'target left exactly as it was',
              canon.snap_diff(R.before, R.after))
    else:
        # the call succeeded although a collaborator failed
        if strict and not wild and evk in ('set',):
            V('atomic-failure', f'success-despite-{evk}-fault/' + desc, 'an error', 'success')
        elif not wild and not R.unchanged():
            # absorbed fault: state must be *complete* — the model's edit, or the model's edit with
            # the faulted prefix segment treated as absent (glom turns access errors into "missing")
            a = canon.snap_struct(R.after)
            if a not in allowed():
                V('atomic-failure', f'partial-after-{evk}-fault/' + desc, 'before or complete', a)
            elif a != sh_after_struct:
                stats['reach.get_fault_absorbed_as_missing'] = stats.get('reach.get_fault_absorbed_as_missing', 0) + 1
    return viols, R


def check_line_crashes(G, item, sh_after_struct, stats, rng, cap, allowed):
    viols = []
    R0 = Run(G, item, count_lines=True)
    L = R0.k.ln
    stats['line_items'] = stats.get('line_items', 0) + 1
    ks = list(range(1, L + 1))
    if L > cap:
        ks = sorted(rng.sample(ks, cap))
    desc = _describe(item)
    wild = pathedit.has_wild(item['segs'])
    for kk in ks:
        for exc in ('Exception', 'BaseException'):
            R = Run(G, item, line_crash={'at': kk, 'exc': exc})
            if not R.k.crashed_at:
                continue
            stats['fault.line_crash_' + exc] = stats.get('fault.line_crash_' + exc, 0) + 1
            if R.unchanged() or wild:
                stats['crash_state_before'] = stats.get('crash_state_before', 0) + 1
                continue
            a = canon.snap_struct(R.after)
            if a in allowed():
                stats['crash_state_complete'] = stats.get('crash_state_complete', 0) + 1
                stats['reach.crash_after_attach'] = 1
                continue
            viols.append({'clause': 'crash-atomicity', 'sig': f'crash-atomicity/partial-state/{desc}',
                          'expected': 'state before or complete', 'observed': canon.snap_diff(R.before, R.after),
                          'crash': {'at': kk, 'exc': exc, 'where': R.k.crashed_at}})
    return viols, L


def run_case(case):
    """replay: case = {'item', 'fault': None | {'key','cls'} | {'line': k, 'exc'}}"""
    item = case['item']
    G = simrun.make_instance(item['knobs'])
    stats = {}
    R, sh, verdict, viols = check_fault_free(G, item, stats)
    digests = [R.k.digest()]
    sh_after = canon.snap_struct(canon.snapshot(sh.root)) if verdict[0] == 'ok' else None
    f = case.get('fault')
    allowed = _Allowed(G, item, sh_after)
    if f and 'key' in f:
        viols2, R2 = check_faulted(G, item, R, sh_after, verdict, f['key'], f['cls'], stats, allowed)
        viols = viols2
        digests.append(R2.k.digest())
    elif f and 'line' in f:
        R2 = Run(G, item, line_crash={'at': f['line'], 'exc': f['exc']})
        digests.append(R2.k.digest())
        viols = []
        if R2.k.crashed_at and not R2.unchanged():
            a = canon.snap_struct(R2.after)
            if a not in allowed():
                viols.append({'clause': 'crash-atomicity', 'sig': f'crash-atomicity/partial-state/{_describe(item)}',
                              'expected': 'state before or complete',
                              'observed': canon.snap_diff(R2.before, R2.after)})
    d = simrun.jhash(digests)
    for v in viols:
        v['digest'] = d
    return {'violations': viols, 'digest': d, 'stats': stats}


def run_seed(seed, tier):
    rng = random.Random(seed ^ 0x11C11)
    item = gen_item(seed, tier)
    G = simrun.make_instance(item['knobs'])
    stats = {'items': 1}
    out = {'runs': 0, 'events': 0, 'lines': 0, 'stats': stats, 'shapes': [], 'violations': [],
           'harness_errors': [], 'trace_digests': []}
    try:
        R, sh, verdict, viols = check_fault_free(G, item, stats)
    except SimBudgetExceeded:
        return dict(out, runs=1, stats={'budget_exceeded': 1})
    out['runs'] += 1
    out['events'] += len(R.k.log)
    out['trace_digests'].append(R.k.digest())
    if R.res[0] == 'ok' and not R.unchanged():
        out['shapes'].append(simrun.jhash([item['target'], item['segs'], item['val'], 'ff']))
        stats['fault_free_mutations'] = 1
    for v in viols:
        out['violations'].append(dict(v, digest=simrun.jhash([R.k.digest()]), case={'prop': PROP, 'seed': seed, 'item': item, 'fault': None}))
    sh_after = canon.snap_struct(canon.snapshot(sh.root)) if verdict[0] == 'ok' else None
    allowed = _Allowed(G, item, sh_after)
    # enumerated single faults at every collaborator point
    points = [(e[1], e[2], e[3]) for e in R.k.log if e[3] in ('call', 'get', 'set', 'del', 'iter', 'next')]
    stats['points'] = len(points)
    for site, nth, kind in points[:40]:
        key = f'0:{site}#{nth}'
        classes = ['UserErr', 'KeyboardInterrupt']
        if kind == 'get':
            classes = [rng.choice(['KeyError', 'UserErr', 'AttributeError', 'IndexError']), 'UserBase']
        for cls in classes:
            viols2, R2 = check_faulted(G, item, R, sh_after, verdict, key, cls, stats, allowed)
            out['runs'] += 1
            out['events'] += len(R2.k.log)
            out['trace_digests'].append(R2.k.digest())
            if R2.k.fired:
                out['shapes'].append(simrun.jhash([item['target'], item['segs'], key, cls]))
            for v in viols2:
                out['violations'].append(dict(v, digest=simrun.jhash([R.k.digest(), R2.k.digest()]),
                                              case={'prop': PROP, 'seed': seed, 'item': item,
                                                    'fault': {'key': key, 'cls': cls}}))
    if item['line_tier']:
        viols3, L = check_line_crashes(G, item, sh_after, stats, rng, 800 if tier == 'thorough' else 300, allowed)
        out['lines'] += L
        out['runs'] += 2 * min(L, 800)
        for v in viols3:
            c = v.pop('crash')
            R2 = Run(G, item, line_crash={'at': c['at'], 'exc': c['exc']})
            out['violations'].append(dict(v, digest=simrun.jhash([R.k.digest(), R2.k.digest()]),
                                          case={'prop': PROP, 'seed': seed, 'item': item,
                                                'fault': {'line': c['at'], 'exc': c['exc']}}))
    if seed % 100 == 0:
        out['sample'] = {'seed': seed, 'item': {k_: item[k_] for k_ in ('target', 'segs', 'style', 'val', 'missing', 'api')},
                         'model_verdict': list(verdict), 'n_points': len(points)}
    out['violations'] = out['violations'][:10]
    return out
