"""C12 — delete removes exactly the addressed element, or nothing.

Same engine, model and fault kinds as C11 with ``del`` / ``delattr`` on the shadow graph.  The
model classifies every (target, address) before the run: present / cleanly missing final /
missing parent / anything else (don't care between an error and, under ignore_missing, a silent
no-op — but the target must be unchanged).  Then every collaborator point is failed in turn and
(a seeded share of items) every line event inside glom is a crash point: the end state must be
*before* or *complete*, never partial.
"""
import random

from .. import simrun, canon, build
from ..kernel import SimBudgetExceeded
from ..models import pathedit
from . import _mut

PROP = 'C12'
LEVEL = 'fault_enumeration'
RULE = ('per seed one deletion item (random target graph as in C11; address in string / Path / T[..] '
        '/ T.attr / mixed / wildcard style whose parent or final element is present or absent at each '
        'position; ignore_missing in {False, True}); fault-free run vs plain-Python del model, then '
        'every collaborator point x {Exception, BaseException} as single faults, and (a seeded share) '
        'every line event inside glom as a crash point; distinct = hash(item, fault); non-trivial = a '
        'fault or crash fired, or the fault-free run deleted something')
ASSUMPTIONS = [
    'models/pathedit.py is "Python\'s del on the addressed key, index or attribute"; builtin subclasses '
    'are treated like the builtin they derive from, except that the match set of a "*" step is glom\'s '
    'own (keys handler before iterate: a list subclass with an instance __dict__ is object-style)',
    'collaborators fail atomically',
    'addresses that are neither present nor cleanly missing (immutable container, malformed index) are '
    'don\'t-care between an error and a silent no-op under ignore_missing; the target must be unchanged',
]


def budget(tier):
    if tier == 'thorough':
        return {'seeds': 90000, 'wall': 900, 'chunk': 100}
    return {'seeds': 6000, 'wall': 200, 'chunk': 50}


def gen_item(seed, tier):
    rng = random.Random(seed)
    tg = _mut.TG(rng, sim=rng.choice([0.2, 0.5, 0.8]), exotic=rng.choice([0.1, 0.3]))
    target = tg.root()
    wild = rng.random() < 0.12
    segs, style = _mut.gen_segs(rng, target, allow_wild=wild, p_absent=0.1)
    if rng.random() < 0.08:
        target = tg.hetero_root()
        segs, style = _mut.hetero_segs(rng)
    knobs = simrun.draw_knobs(rng)
    knobs['path_star'] = True
    return {'target': target, 'segs': segs, 'style': style, 'ignore_missing': rng.random() < 0.4,
            'api': rng.choice(['delete', 'delete', 'Delete', 'Delete-chain']), 'knobs': knobs,
            'line_tier': rng.random() < (0.25 if tier == 'thorough' else 0.08)}


class Run:
    def __init__(self, G, item, faults=None, line_crash=None, count_lines=False):
        self.k = simrun.make_kernel(G, seed=0, faults=faults, line_crash=line_crash, count_lines=count_lines)
        self.B = build.Builder(G, self.k)
        self.target = tgt = self.B.value(item['target'])
        path = self.B.path_arg(_mut.render_path(item['segs'], item['style']))
        im = item['ignore_missing']
        self.before = canon.snapshot(tgt)
        self.before_ids = canon.snapshot_by_id(tgt)
        api = item['api']
        if api == 'delete':
            th = lambda: G.delete(tgt, path, ignore_missing=im)
        elif api == 'Delete':
            sp = G.Delete(path, ignore_missing=im)
            th = lambda: G.glom(tgt, sp)
        else:
            sp = (G.Delete(path, ignore_missing=im), G.T)
            th = lambda: G.glom(tgt, sp)
        self.res = self.k.run_single(th)
        self.after = canon.snapshot(tgt)
        self.after_ids = canon.snapshot_by_id(tgt)

    def unchanged(self):
        return canon.snap_equal(self.before, self.after)


def _addr_desc(item):
    op = item['segs'][-1][0]
    return {'P': 'path-segment', '[': 'T-item', '.': 'T-attr', 'x': 'wild', 'X': 'wild'}[op] + \
        ('/ignore_missing' if item['ignore_missing'] else '')


def _final_container_kind(sh, item):
    try:
        if pathedit.has_wild(item['segs']):
            return 'wild'
        d = pathedit.walk(sh.root, item['segs'][:-1])
        return type(d).__name__
    except pathedit.Absent:
        return 'absent'


def check_fault_free(G, item, stats):
    viols = []
    R = Run(G, item)
    sh = _mut.Shadow(G, item['target'])
    ck = _final_container_kind(sh, item)
    verdict = pathedit.model_delete(sh.root, item['segs'], item['ignore_missing'])
    res = R.res
    im = item['ignore_missing']
    desc = _addr_desc(item) + '/' + ck
    stats['model_' + verdict[0]] = stats.get('model_' + verdict[0], 0) + 1

    def V(clause, detail, expected, observed):
        viols.append({'clause': clause, 'sig': f'{clause}/{detail}', 'expected': expected, 'observed': observed})
    if verdict[0] == 'ok':
        if res[0] != 'ok':
            V('del-effect', 'error-where-plain-del-succeeds/' + desc, 'success', canon.outcome(res, with_text=False))
        else:
            if res[1] is not R.target:
                V('del-effect', 'returns-other-object/' + desc, 'the target itself', canon.canon(res[1])[:2])
            a, b = canon.snap_struct(R.after), canon.snap_struct(canon.snapshot(sh.root))
            if a != b:
                V('del-effect', 'state-differs-from-plain-del/' + desc, b, a)
            elif ck in ('SimDict', 'SimList', 'SimObj') and not any(e[3] == 'del' for e in R.k.log):
                V('del-effect', 'container-own-delete-method-bypassed/' + desc,
                  "the container's own __delitem__/__delattr__ is called", 'deleted without calling it')
            elif not pathedit.has_wild(item['segs']):
                changed = [i for i in R.before_ids if i in R.after_ids and R.before_ids[i] != R.after_ids[i]]
                if len(changed) > 1:
                    V('del-effect', 'more-than-one-container-changed/' + desc, '<= 1', len(changed))
    elif verdict[0] in ('missing-final', 'missing-parent'):
        want = 'PathDeleteError' if verdict[0] == 'missing-final' else 'PathAccessError'
        if not R.unchanged():
            V('missing', f'target-changed/{verdict[0]}/' + desc, 'unchanged', canon.snap_diff(R.before, R.after))
        elif im:
            if res[0] != 'ok':
                V('missing', f'not-ignored/{verdict[0]}/' + desc, 'silently ignored (ignore_missing=True)',
                  canon.outcome(res, with_text=False))
            elif res[1] is not R.target:
                V('missing', f'returns-other-object/{verdict[0]}/' + desc, 'the target', canon.canon(res[1])[:2])
        else:
            if res[0] == 'ok':
                V('missing', f'no-error/{verdict[0]}/' + desc, want, 'success')
            else:
                e = res[1]
                ok = isinstance(e, getattr(G, want)) and isinstance(e, G.GlomError)
                if verdict[0] == 'missing-parent' and isinstance(e, G.PathDeleteError):
                    ok = False
                if not ok:
                    V('missing', f'wrong-error/{verdict[0]}/' + desc, want,
                      {'cls': type(e).__name__, 'mro': canon.mro_names(type(e))[:4]})
    else:
        # 'other' / 'partial': only atomicity (wildcard-free)
        if not pathedit.has_wild(item['segs']) and not R.unchanged():
            V('missing', 'target-changed/other/' + desc, 'unchanged', canon.snap_diff(R.before, R.after))
    return R, sh, verdict, viols


def check_faulted(G, item, sh_after, fault_key, cls, stats):
    viols = []
    R = Run(G, item, faults={fault_key: {'cls': cls}})
    if not R.k.fired:
        return viols, R
    kind = R.k.fired[0][2].get('kind', 'unknown')
    stats['fault.' + cls] = stats.get('fault.' + cls, 0) + 1
    stats['reach.fault_at_' + kind] = stats.get('reach.fault_at_' + kind, 0) + 1
    if pathedit.has_wild(item['segs']):
        return viols, R
    evk = next((e[3] for e in R.k.log if len(e) > 5 and str(e[5]).startswith('FAULT')), '?')
    desc = _addr_desc(item)
    if R.unchanged():
        if evk == 'del' and R.res[0] == 'ok' and not item['ignore_missing'] and issubclass(R.k.cat.cls(cls), Exception):
            viols.append({'clause': 'fault-atomicity', 'sig': f'fault-atomicity/success-despite-del-fault/{desc}',
                          'expected': 'an error', 'observed': 'success'})
        return viols, R
    a = canon.snap_struct(R.after)
    if sh_after is None or a != sh_after:
        viols.append({'clause': 'fault-atomicity', 'sig': f'fault-atomicity/partial-after-{evk}-fault/{desc}',
                      'expected': 'before or complete', 'observed': canon.snap_diff(R.before, R.after)})
    return viols, R


def check_line_crashes(G, item, sh_after, stats, rng, cap):
    viols = []
    R0 = Run(G, item, count_lines=True)
    L = R0.k.ln
    stats['line_items'] = stats.get('line_items', 0) + 1
    ks = list(range(1, L + 1))
    if L > cap:
        ks = sorted(rng.sample(ks, cap))
    wild = pathedit.has_wild(item['segs'])
    for kk in ks:
        for exc in ('Exception', 'BaseException'):
            R = Run(G, item, line_crash={'at': kk, 'exc': exc})
            if not R.k.crashed_at:
                continue
            stats['fault.line_crash_' + exc] = stats.get('fault.line_crash_' + exc, 0) + 1
            if R.unchanged() or wild:
                stats['crash_state_before'] = stats.get('crash_state_before', 0) + 1
                continue
            if sh_after is not None and canon.snap_struct(R.after) == sh_after:
                stats['crash_state_complete'] = stats.get('crash_state_complete', 0) + 1
                stats['reach.crash_after_delete'] = 1
                continue
            viols.append({'clause': 'crash-atomicity', 'sig': f'crash-atomicity/partial-state/{_addr_desc(item)}',
                          'expected': 'state before or complete', 'observed': canon.snap_diff(R.before, R.after),
                          'crash': {'at': kk, 'exc': exc}})
    return viols, L


def check_spellings(G, item, verdict, stats):
    """the same address in every spelling it can be written in behaves alike"""
    viols = []
    segs = item['segs']
    if pathedit.has_wild(segs):
        return viols
    variants = []
    if all(isinstance(a, str) and '.' not in a and a not in ('', '*', '**') for _, a in segs):
        variants.append(('str', [['P', a] for _, a in segs]))
    variants.append(('Path', [['P', a] for _, a in segs]))
    variants.append(('T', [['[', a] for _, a in segs]))
    outs = {}
    for style, vs in variants:
        it = dict(item, segs=vs, style=style)
        sh = _mut.Shadow(G, it['target'])
        vd = pathedit.model_delete(sh.root, vs)
        R = Run(G, it)
        kind = 'ok' if R.res[0] == 'ok' else ('PDE' if isinstance(R.res[1], G.PathDeleteError) else
                                              'PAE' if isinstance(R.res[1], G.PathAccessError) else 'other')
        outs[style] = (vd[0], kind, canon.snap_struct(R.after))
    stats['spelling_groups'] = stats.get('spelling_groups', 0) + 1
    # compare spellings whose *model* verdict agrees (string segments on lists coerce to int, T[..] does not)
    base = None
    for style, (vd, kind, after) in outs.items():
        if vd not in ('ok', 'missing-final', 'missing-parent'):
            continue
        for style2, (vd2, kind2, after2) in outs.items():
            if style2 <= style or vd2 != vd:
                continue
            if kind != kind2 or after != after2:
                viols.append({'clause': 'spellings-alike', 'sig': f'spellings-alike/{vd}/{style}:{kind}-vs-{style2}:{kind2}'
                              + ('/ignore_missing' if item['ignore_missing'] else ''),
                              'expected': f'{style} and {style2} spellings behave alike', 'observed': [kind, kind2]})
    return viols


def run_case(case):
    item = case['item']
    G = simrun.make_instance(item['knobs'])
    stats = {}
    R, sh, verdict, viols = check_fault_free(G, item, stats)
    digests = [R.k.digest()]
    sh_after = canon.snap_struct(canon.snapshot(sh.root)) if verdict[0] == 'ok' else None
    f = case.get('fault')
    if f == 'spellings':
        viols = check_spellings(G, item, verdict, stats)
    elif f and 'key' in f:
        viols, R2 = check_faulted(G, item, sh_after, f['key'], f['cls'], stats)
        digests.append(R2.k.digest())
    elif f and 'line' in f:
        R2 = Run(G, item, line_crash={'at': f['line'], 'exc': f['exc']})
        digests.append(R2.k.digest())
        viols = []
        if R2.k.crashed_at and not R2.unchanged() and not (sh_after is not None and canon.snap_struct(R2.after) == sh_after):
            viols.append({'clause': 'crash-atomicity', 'sig': f'crash-atomicity/partial-state/{_addr_desc(item)}',
                          'expected': 'state before or complete', 'observed': canon.snap_diff(R2.before, R2.after)})
    d = simrun.jhash(digests)
    for v in viols:
        v['digest'] = d
    return {'violations': viols, 'digest': d, 'stats': stats}


def run_seed(seed, tier):
    rng = random.Random(seed ^ 0x12C12)
    item = gen_item(seed, tier)
    G = simrun.make_instance(item['knobs'])
    stats = {'items': 1}
    out = {'runs': 0, 'events': 0, 'lines': 0, 'stats': stats, 'shapes': [], 'violations': [],
           'harness_errors': [], 'trace_digests': []}
    try:
        R, sh, verdict, viols = check_fault_free(G, item, stats)
    except SimBudgetExceeded:
        return dict(out, runs=1, stats={'budget_exceeded': 1})
    out['runs'] += 1
    out['events'] += len(R.k.log)
    out['trace_digests'].append(R.k.digest())
    d0 = simrun.jhash([R.k.digest()])
    if R.res[0] == 'ok' and not R.unchanged():
        out['shapes'].append(simrun.jhash([item['target'], item['segs'], 'ff']))
        stats['fault_free_deletions'] = 1
    for v in viols:
        out['violations'].append(dict(v, digest=d0, case={'prop': PROP, 'seed': seed, 'item': item, 'fault': None}))
    for v in check_spellings(G, item, verdict, stats):
        out['violations'].append(dict(v, digest=d0, case={'prop': PROP, 'seed': seed, 'item': item, 'fault': 'spellings'}))
    sh_after = canon.snap_struct(canon.snapshot(sh.root)) if verdict[0] == 'ok' else None
    points = [(e[1], e[2], e[3]) for e in R.k.log if e[3] in ('call', 'get', 'set', 'del', 'iter', 'next')]
    stats['points'] = len(points)
    for site, nth, kind in points[:40]:
        key = f'0:{site}#{nth}'
        classes = ['UserErr', 'KeyboardInterrupt'] if kind != 'get' else \
            [rng.choice(['KeyError', 'UserErr', 'AttributeError', 'IndexError']), 'UserBase']
        for cls in classes:
            viols2, R2 = check_faulted(G, item, sh_after, key, cls, stats)
            out['runs'] += 1
            out['events'] += len(R2.k.log)
            out['trace_digests'].append(R2.k.digest())
            if R2.k.fired:
                out['shapes'].append(simrun.jhash([item['target'], item['segs'], key, cls]))
            for v in viols2:
                out['violations'].append(dict(v, digest=simrun.jhash([R.k.digest(), R2.k.digest()]),
                                              case={'prop': PROP, 'seed': seed, 'item': item,
                                                    'fault': {'key': key, 'cls': cls}}))
    if item['line_tier']:
        viols3, L = check_line_crashes(G, item, sh_after, stats, rng, 800 if tier == 'thorough' else 300)
        out['lines'] += L
        out['runs'] += 2 * min(L, 800)
        for v in viols3:
            c = v.pop('crash')
            R2 = Run(G, item, line_crash={'at': c['at'], 'exc': c['exc']})
            out['violations'].append(dict(v, digest=simrun.jhash([R.k.digest(), R2.k.digest()]),
                                          case={'prop': PROP, 'seed': seed, 'item': item,
                                                'fault': {'line': c['at'], 'exc': c['exc']}}))
    if seed % 100 == 0:
        out['sample'] = {'seed': seed, 'item': {k_: item[k_] for k_ in ('target', 'segs', 'style', 'ignore_missing', 'api')},
                         'model_verdict': list(verdict), 'n_points': len(points)}
    out['violations'] = out['violations'][:10]
    return out
