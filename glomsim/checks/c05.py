"""C05 — error messages carry a faithful target-spec trace down to the failing spec.

Per seed: one spec tree over the shapes the statement names (linear nestings, chains, branches,
branches inside chains inside branches) with identity probes and access leaves, over a labelled
target whose nodes have distinct reprs (short, long/truncated, non-ASCII), at a per-seed terminal
width.  Fault plans: every probe point of the fault-free run is failed in turn (absorbable GlomError
subclass and non-absorbable class), plus 2-4-fault plans whose first faults are absorbed by an
enclosing Coalesce/Or/Switch.  Oracle: a spec-tree walker (models/trace_walker.py) consumes the same
keyed plan and yields the failure record; the real message is parsed structurally and the record must
embed in it (root target first; ancestors in order; innermost failing spec last with the target it
received; attempted branches in order with the error that ended each); the message must end with
the type and message of the original error (twin run with glom_debug=True).
"""
import random
import traceback

from .. import simrun, canon, build
from ..kernel import SimBudgetExceeded
from ..models import trace_walker as tw

PROP = 'C05'
LEVEL = 'exploration'
RULE = ('per seed one spec tree (dict/list nestings, tuple/Pipe chains, Coalesce/Or/Switch/And branches, '
        'depth <= 6) with identity probes and access leaves (some missing on purpose) over a labelled '
        'target (short / long / non-ASCII reprs), trace width drawn per seed; plans: fault-free, every '
        'probe point x {absorbable, non-absorbable} class, and multi-fault plans with absorbed prefixes; '
        'distinct = hash(spec, plan); non-trivial = the evaluation failed and the trace was checked')
ASSUMPTIONS = [
    'models/trace_walker.py is the reference for evaluation order and for who catches what in this grammar; '
    'disagreement between model and real outcome is counted (model_divergence) and never reported as a violation',
    'the check is an embedding: exact text, column widths and glyphs beyond those documented are not compared',
]


def budget(tier):
    if tier == 'thorough':
        return {'seeds': 240000, 'wall': 900, 'chunk': 100}
    return {'seeds': 16000, 'wall': 200, 'chunk': 50}


class Gen:
    def __init__(self, rng):
        self.rng = rng
        self.pid = 0
        self.leaf = 0
        self.max_depth = rng.choice([3, 4, 5, 6])
        self.long = rng.random() < 0.3
        self.nonascii = rng.random() < 0.3

    def new_pid(self):
        self.pid += 1
        return self.pid

    def leafval(self):
        self.leaf += 1
        r = self.rng.random()
        if self.long and r < 0.3:
            return f'L{self.leaf}' + 'x' * self.rng.randint(40, 120)
        if self.nonascii and r < 0.5:
            return f'é{self.leaf}ü'
        if r < 0.7:
            return 100 + self.leaf
        return f's{self.leaf}'

    def target(self, depth=0):
        rng = self.rng
        if depth >= 3 or (depth and rng.random() < 0.25):
            return self.leafval()
        if rng.random() < 0.7:
            return {k: self.target(depth + 1) for k in rng.sample(['a', 'b', 'c', 'd'], rng.randint(1, 3))}
        return [self.target(depth + 1) for _ in range(rng.randint(1, 3))]

    def probe(self):
        return ['probe', self.new_pid(), 'id']

    def missing(self):
        if self.rng.random() < 0.15:
            # a literal that the target never equals: MatchError, whose message shows the target's repr
            return ['SpecWrap', ['MatchLit', 'never-equal']]
        return self.rng.choice([['str', 'zz'], ['T', 'T', [['[', 'zz']]], ['str', 'zz.y'],
                                ['T', 'S', [['.', 'unbound_name']]], ['T', 'S', [['[', 'unbound_key']]]])

    def access(self, t):
        rng = self.rng
        if isinstance(t, dict) and t:
            k = rng.choice(list(t))
            if rng.random() < 0.15:
                return self.missing(), None
            sub = t[k]
            if isinstance(sub, dict) and sub and rng.random() < 0.4:
                k2 = rng.choice(list(sub))
                return ['str', f'{k}.{k2}'], sub[k2]
            if rng.random() < 0.5:
                return ['str', k], sub
            return ['T', 'T', [['[', k]]], sub
        if isinstance(t, list) and t:
            i = rng.randrange(len(t))
            return (['str', str(i)] if rng.random() < 0.5 else ['T', 'T', [['[', i]]]), t[i]
        return self.probe(), t

    def spec(self, t, depth=0):
        """-> (recipe, result value or None when unknown)"""
        rng = self.rng
        if depth >= self.max_depth:
            return self.leaf_spec(t)
        c = rng.choice(['dict', 'dict', 'chain', 'chain', 'coalesce', 'coalesce', 'or', 'switch', 'switch', 'list',
                        'leaf', 'and', 'check', 'matchor'])
        if depth == 0 and rng.random() < 0.02:
            # a DEEP failure: every level between the root spec and the innermost failing spec is listed,
            # however many there are
            inner = self.missing() if rng.random() < 0.7 else self.spec(t, self.max_depth - 1)[0]
            for i in range(rng.randint(40, 70)):
                inner = ['dict', [[f'd{i % 3}', inner]]] if i % 4 else ['tuple', [['T', 'T', []], inner]]
            return inner, None
        d = depth + 1
        if c == 'leaf':
            return self.leaf_spec(t)
        if c == 'dict':
            pairs = [[f'k{i}', self.spec(t, d)[0]] for i in range(rng.randint(1, 3))]
            if rng.random() < 0.25:
                # a COMPUTED key (a T / S expression): evaluated after its value, with a trace line of
                # its own when it is what fails
                i = rng.randrange(len(pairs))
                if rng.random() < 0.5:
                    key = rng.choice([['T', 'T', [['[', 'zz']]], ['T', 'S', [['.', 'unbound_name']]]])
                else:
                    key, kv = self.access(t)
                    if key[0] != 'T' or isinstance(kv, (dict, list)) or kv is None:
                        key = ['T', 'T', [['[', 'zz']]]
                pairs[i][0] = {'t': 'spec', 'v': key}
            return ['dict', pairs], None
        if c == 'list':
            if isinstance(t, list) and t:
                return ['list', [self.spec(t[0], d)[0]]], None
            return ['tuple', [['Val', [1, 2]], ['list', [self.probe()]]]], None
        if c == 'chain':
            steps = []
            cur = t
            for _ in range(rng.randint(2, 3)):
                s, cur2 = self.spec(cur, d) if rng.random() < 0.5 else self.leaf_spec(cur)
                steps.append(s)
                cur = cur2 if cur2 is not None else None
                if cur is None:
                    steps.append(self.probe())
                    break
            return [rng.choice(['tuple', 'tuple', 'Pipe']), steps], None
        if c == 'coalesce':
            subs = []
            for _ in range(rng.randint(1, 3)):
                subs.append(self.missing() if rng.random() < 0.4 else self.spec(t, d)[0])
            o = {'default': 'cdef'} if rng.random() < 0.3 else {}
            if rng.random() < 0.3:
                # a skipped VALUE (not a failure): the branch was evaluated, then passed over
                o['skip'] = 7
                subs.insert(rng.randint(0, len(subs)), ['Val', 7])
            return ['Coalesce', subs, o], None
        if c == 'or':
            subs = [self.missing() if rng.random() < 0.4 else self.spec(t, d)[0] for _ in range(rng.randint(1, 3))]
            o = {'default': 'odef'} if rng.random() < 0.2 else {}
            return ['Or', subs, o], None
        if c == 'matchor':
            # Match(Or(type, type, ...)): every type that was tried and did not fit is an attempted branch
            types = rng.sample(['int', 'str', 'list', 'dict', 'float', 'tuple'], rng.randint(2, 4))
            return ['SpecWrap', ['MatchOf', ['Or', [['type', tn] for tn in types], {}]]], None
        if c == 'check':
            # fails by itself (CheckError) after its sub-spec — often a recovered branch — succeeded
            return ['Check', self.spec(t, d)[0], {'equal_to': 'never-equal'}], None
        if c == 'and':
            return ['And', [self.spec(t, d)[0] for _ in range(rng.randint(1, 2))], {}], None
        cases = []
        for _ in range(rng.randint(1, 3)):
            key = self.missing() if rng.random() < 0.4 else self.probe()
            cases.append([key, self.spec(t, d)[0]])
        o = {'default': 'sdef'} if rng.random() < 0.25 else {}
        return ['Switch', cases, o], None

    def leaf_spec(self, t):
        rng = self.rng
        r = rng.random()
        if isinstance(t, int) and not isinstance(t, bool) and rng.random() < 0.35:
            return ['fn', 'float'], float(t)
        if r < 0.45:
            return self.probe(), t
        if r < 0.9:
            return self.access(t)
        return ['Val', 7], 7


def gen_item(seed, tier):
    rng = random.Random(seed)
    g = Gen(rng)
    target = g.target()
    while not isinstance(target, (dict, list)):
        target = g.target()
    spec, _ = g.spec(target, 0)
    knobs = simrun.draw_knobs(rng)
    knobs['trace_width'] = rng.choice([50, 55, 64, 78, 90, 108])
    return {'target': target, 'spec': spec, 'knobs': knobs}


def _value_recipe(v):
    if isinstance(v, dict):
        return {'t': 'dict', 'v': [[k, _value_recipe(x)] for k, x in v.items()]}
    if isinstance(v, list):
        return {'t': 'list', 'v': [_value_recipe(x) for x in v]}
    return v


def eval_plan(G, item, plan, stats):
    """-> (violations, digest)"""
    viols = []

    def V(clause, detail, expected, observed):
        viols.append({'clause': clause, 'sig': f'{clause}/{detail}', 'expected': expected, 'observed': observed})

    def one(debug):
        k = simrun.make_kernel(G, seed=0, faults=plan)
        B = build.Builder(G, k)
        target = B.value(_value_recipe(item['target']))
        root = tw.build(G, B, item['spec'])
        kw = {'glom_debug': True} if debug else {}
        res = k.run_single(lambda: G.glom(target, root.obj, **kw))
        return k, root, target, res
    k, root, target, res = one(False)
    digest = k.digest()
    walker = tw.Walker(plan)
    mres = walker.run(root, item['target'])
    if k.fired:
        for fk, cls, sk in k.fired:
            stats['fault.' + cls] = stats.get('fault.' + cls, 0) + 1
    if (mres[0] == 'ok') != (res[0] == 'ok'):
        stats['model_divergence'] = stats.get('model_divergence', 0) + 1
        return viols, digest, ['divergence', mres[0], res[0], repr(res[1])[:200]]
    if res[0] == 'ok':
        stats['ok_evaluations'] = stats.get('ok_evaluations', 0) + 1
        if len(k.fired) >= 1:
            stats['reach.fault_absorbed'] = stats.get('reach.fault_absorbed', 0) + 1
        return viols, digest, None
    err = res[1]
    try:
        str(err)
    except Exception as ex:
        V('trace-structure', f'str-raises/{type(ex).__name__}', 'a message with a target-spec trace', repr(ex)[:200])
        return viols, digest, None
    if not isinstance(err, G.GlomError):
        stats['non_glomerror'] = stats.get('non_glomerror', 0) + 1
        return viols, digest, None
    stats['traces_checked'] = stats.get('traces_checked', 0) + 1
    if len(k.fired) >= 2:
        stats['reach.failure_after_absorbed_fault'] = stats.get('reach.failure_after_absorbed_fault', 0) + 1
    me = mres[1]
    fmtv = lambda v: G.core.bbrepr(v).replace("\\'", "'")
    msg = str(err)
    record = {
        'root_target': fmtv(target),
        'path': [(fmtv(n.obj), fmtv(t), id(n)) for n, t in me.path],
        'branches': {nid: [(fmtv(c.obj), e.etype, e.marker) for c, e in fl] for nid, fl in me.branches.items()},
        'etype': me.etype, 'marker': me.marker, 'inline_ok': dict(me.inline_ok),
    }
    # inner branch records (failed branches carry their own nested branch records: not required by the statement)
    try:
        blocks, tail = tw.parse_trace(msg)
    except ValueError as ex:
        V('trace-structure', 'unparseable', 'a target-spec trace', [str(ex), msg[:300]])
        return viols, digest, None
    problems = tw.embed(blocks, record, fmtv) + tw.order_problems(blocks)
    shape = _shape(me)
    for p in problems:
        V('trace-embedding', f'{p[0]}/{shape}', {'path': [x[0][:60] for x in record['path']],
                                                 'branches': {str(i): [b[:2] for b in fl] for i, fl in enumerate(record['branches'].values())}},
          {'problem': p, 'trace': msg.split('\n')[2:2 + 40]})
    if me.branches:
        stats['reach.branching_ancestor'] = stats.get('reach.branching_ancestor', 0) + 1
    # ---- the SAME target object, changed in place by its owner, fails again: the new trace shows the
    # target as it is now (what was rendered for an object before is history)
    if not problems and isinstance(item['target'], (dict, list)) and item['target'] \
            and len(record['root_target']) > item['knobs'].get('trace_width', 78) - 12:
        import copy as _copy
        plain2 = _copy.deepcopy(item['target'])
        if isinstance(plain2, dict):
            k0 = next(iter(plain2))
            plain2[k0] = 'CHANGED-IN-PLACE'
            target[k0] = 'CHANGED-IN-PLACE'
        else:
            plain2[0] = 'CHANGED-IN-PLACE'
            target[0] = 'CHANGED-IN-PLACE'
        k2 = simrun.make_kernel(G, seed=0, faults=plan)
        B2 = build.Builder(G, k2)
        root2 = tw.build(G, B2, item['spec'])
        res2 = k2.run_single(lambda: G.glom(target, root2.obj))
        m2 = tw.Walker(plan).run(root2, plain2)
        if res2[0] == 'exc' and m2[0] == 'err' and isinstance(res2[1], G.GlomError):
            stats['reach.rendered_again_after_in_place_change'] = stats.get('reach.rendered_again_after_in_place_change', 0) + 1
            me2 = m2[1]
            rec2 = {'root_target': fmtv(target),
                    'path': [(fmtv(n.obj), fmtv(t), id(n)) for n, t in me2.path],
                    'branches': {nid: [(fmtv(c.obj), e.etype, e.marker) for c, e in fl] for nid, fl in me2.branches.items()},
                    'etype': me2.etype, 'marker': me2.marker, 'inline_ok': dict(me2.inline_ok)}
            try:
                msg2 = str(res2[1])
                blocks2, _ = tw.parse_trace(msg2)
                for p in tw.embed(blocks2, rec2, fmtv):
                    V('trace-embedding', f'after-in-place-change/{p[0]}', rec2['root_target'][:120],
                      {'problem': p, 'trace': msg2.split('\n')[2:12]})
            except ValueError:
                pass
    # ---- final line: type and message of the original error
    kd, _, _, resd = one(True)
    if resd[0] == 'exc':
        o = resd[1]
        exp_last = ''.join(traceback.format_exception_only(type(o), o)).rstrip('\n').split('\n')[-1]
        last = msg.rstrip('\n').split('\n')[-1]
        if '<exception str() failed>' in last:
            V('final-error-line', f'str-failed/{type(o).__name__}', 'type and message of the original error', last)
        elif canon.norm_text(last) != canon.norm_text(exp_last):
            V('final-error-line', f'differs/{type(o).__name__}', exp_last, last)
        elif me.marker and me.marker not in last and me.etype not in ('CoalesceError', 'MatchError'):
            V('final-error-line', f'marker-missing/{me.etype}', me.marker, last)
        else:
            # "... and ends with the type and message of the original error": all of it, also when
            # the message has several lines (a blank one, one that only points at a column)
            exp_full = ''.join(traceback.format_exception_only(type(o), o)).rstrip('\n')
            if '\n' in exp_full and not canon.norm_text(msg.rstrip('\n')).endswith(canon.norm_text(exp_full)):
                V('final-error-line', f'message-lines-lost/{type(o).__name__}', exp_full, msg.rstrip('\n')[-300:])
    return viols, digest, None


def _shape(me):
    kinds = [n.kind for n, _ in me.path]
    br = 'branching' if me.branches else 'linear'
    return f'{br}/innermost-{kinds[-1]}'


def run_case(case):
    item = case['item']
    G = simrun.make_instance(item['knobs'])
    stats = {}
    viols, digest, div = eval_plan(G, item, case['plan'], stats)
    for v in viols:
        v['digest'] = digest
    return {'violations': viols, 'digest': digest, 'stats': stats}


def run_seed(seed, tier):
    rng = random.Random(seed ^ 0x05C05)
    item = gen_item(seed, tier)
    G = simrun.make_instance(item['knobs'])
    stats = {'items': 1}
    out = {'runs': 0, 'events': 0, 'lines': 0, 'stats': stats, 'shapes': [], 'violations': [],
           'harness_errors': [], 'trace_digests': []}
    # discovery: probe points of the fault-free run
    k0 = simrun.make_kernel(G, seed=0)
    B0 = build.Builder(G, k0)
    t0 = B0.value(_value_recipe(item['target']))
    try:
        root0 = tw.build(G, B0, item['spec'])
    except NotImplementedError:
        return dict(out, stats={'unsupported': 1})
    k0.run_single(lambda: G.glom(t0, root0.obj))
    points = [(e[1], e[2]) for e in k0.log if e[3] == 'call']
    stats['points'] = len(points)
    plans = [{}]
    for site, nth in points[:30]:
        plans.append({f'0:{site}#{nth}': {'cls': rng.choice(['UGlomErr', 'UGlomErr', 'UGlomErrInit', 'UGlomMixed',
                                                             'UGlomMultiline'])}})
        plans.append({f'0:{site}#{nth}': {'cls': rng.choice(['ValueError', 'KeyError', 'UserErr', 'UGlomArity',
                                                             'UGlomKwOnly', 'UserArity', 'UserCaret'])}})
    for _ in range(6 if len(points) >= 2 else 0):
        chosen = rng.sample(points, min(len(points), rng.randint(2, 4)))
        plan = {}
        for j, (site, nth) in enumerate(chosen):
            plan[f'0:{site}#{nth}'] = {'cls': 'UGlomErr' if j < len(chosen) - 1 or rng.random() < 0.5 else 'ValueError'}
        plans.append(plan)
    for plan in plans:
        try:
            viols, digest, div = eval_plan(G, item, plan, stats)
        except SimBudgetExceeded:
            continue
        except NotImplementedError:
            stats['unsupported'] = stats.get('unsupported', 0) + 1
            continue
        out['runs'] += 2
        out['trace_digests'].append(digest)
        if div:
            out['harness_errors'].append([seed, plan, div]) if len(out['harness_errors']) < 2 else None
        for v in viols:
            out['violations'].append(dict(v, digest=digest, case={'prop': PROP, 'seed': seed, 'item': item, 'plan': plan}))
        out['shapes'].append(simrun.jhash([item['spec'], plan]))
    if seed % 200 == 0:
        out['sample'] = {'seed': seed, 'spec': item['spec'], 'target': item['target'], 'n_plans': len(plans),
                         'width': item['knobs']['trace_width']}
    out['violations'] = out['violations'][:8]
    return out
