"""C16 — Group builds exactly the buckets and aggregates of a hand-written loop.

What simulation decides: accumulation state lives only for one evaluation — under RE-USE of one
Group spec object across a history, NESTING (a key function that re-entrantly evaluates the same
Group object), evaluations INTERLEAVED at the item source (baton scheduler), and evaluations ABORTED
by a source fault.  The bucketing-loop equality is the per-evaluation oracle.
"""
import copy
import random
from collections import OrderedDict

from .. import simrun, canon, build
from ..kernel import SimBudgetExceeded

PROP = 'C16'
LEVEL = 'exploration'
RULE = ('seeded Group spec trees (1-3 key levels over T-expressions, callables, SKIP-producing keys; '
        'leaves [value_spec] or First/Max/Min/Avg/Sum/Count/Flatten/Merge; optional top-level Limit) x '
        '2-5 item sequences from counted sources, in histories: sequential re-use, 2-3 evaluations of the '
        'same spec object in flight, re-entrant nesting of the same object from a key function, source '
        'fault then healthy evaluation; distinct = hash(spec, items, mode, schedule); non-trivial = the '
        'spec object is evaluated >= 2 times')
ASSUMPTIONS = [
    'reference = an explicit bucketing loop (first-occurrence key order, encounter value order, SKIP drops)',
    'Sample() is excluded (global random, not named by the statement)',
]


def budget(tier):
    if tier == 'thorough':
        return {'seeds': 400000, 'wall': 900, 'chunk': 100}
    return {'seeds': 30000, 'wall': 200, 'chunk': 50}


INT_KEYS = [['T', 'T', [['%', 2]]], ['T', 'T', [['%', 3]]], ['fn', 'mod3'], ['fn', 'is_even'], ['fn', 'tostr'],
            ['fn', 'skip_odd'], ['fn', 'lt3']]
INT_VALS = [['T', 'T', []], ['fn', 'double'], ['fn', 'skip_odd'], ['fn', 'inc']]
INT_AGGS = [['First'], ['Max'], ['Min'], ['Avg'], ['Sum'], ['Count']]


def gen_gspec(rng, levels, item_kind):
    if levels == 0:
        if item_kind == 'int':
            r = rng.random()
            if r < 0.35:
                return ['list', [rng.choice(INT_VALS)]]
            if r < 0.45:
                return ['list', [rng.choice(INT_VALS), rng.choice(INT_VALS)]]      # two value specs per item
            return rng.choice(INT_AGGS)
        if item_kind == 'list':
            return rng.choice([['Flatten'], ['Count'], ['First'], ['list', [['T', 'T', []]]], ['list', [['fn', 'len']]],
                               ['list', [['Auto', ['Sum']]]], ['list', [['Auto', ['Count']]]],
                               ['SumOfGroupSum']])
        return rng.choice([['Merge'], ['Count'], ['First'], ['list', [['T', 'T', [['[', 'k']]]]],
                           ['list', [['T', 'T', [['[', 'v']]]]], ['list', [['T', 'T', [['[', 'v']]], ['T', 'T', [['[', 'k']]]]]])
    if item_kind == 'int':
        keys = [rng.choice(INT_KEYS)]
        if rng.random() < 0.15:
            keys.append(['fn', 'tostr'] if keys[0] != ['fn', 'tostr'] else ['T', 'T', [['%', 2]]])
    elif item_kind == 'list':
        keys = [rng.choice([['fn', 'len'], ['fn', 'first_or0'], ['fn', 'nonempty'], ['Auto', ['Count']],
                            ['Auto', ['Sum']]])]
    else:
        keys = [rng.choice([['T', 'T', [['[', 'k']]], ['fn', 'len']])]
    return ['dict', [[{'t': 'spec', 'v': k}, gen_gspec(rng, levels - 1, item_kind)] for k in keys]]


def gen_items(rng, kind):
    n = rng.choice([0, 1, 2, 3, 5, 8])
    if kind == 'int':
        lo = rng.choice([0, 0, -4])
        out = [rng.randint(lo, 9) for _ in range(n)]
        if rng.random() < 0.25:
            # equal but distinguishable numbers (2 and 2.0): Max / Min keep the FIRST of equal items,
            # like max() / min(), and First / buckets keep what they saw, not something equal to it
            out = [float(x) if rng.random() < 0.35 else x for x in out]
        return out
    if kind == 'list':
        return [{'t': 'list', 'v': [rng.randint(0, 9) for _ in range(rng.randint(0, 3))]} for _ in range(n)]
    # ('v': now and then a value that compares equal to everything -- a value like any other)
    return [{'t': 'dict', 'v': [['k', rng.randint(0, 2)], ['v', {'t': 'anyeq'} if rng.random() < 0.2 else rng.randint(0, 9)]]
             + ([[rng.choice(['a', 'b']), rng.randint(0, 9)]] if rng.random() < 0.7 else [])}
            for _ in range(n)]


def gen_case(seed, tier):
    rng = random.Random(seed)
    item_kind = rng.choice(['int', 'int', 'int', 'list', 'dict'])
    g = gen_gspec(rng, rng.randint(0, 3), item_kind)
    limit = rng.randint(0, 4) if rng.random() < 0.2 else None
    nseq = rng.randint(2, 5)
    seqs = [{'items': gen_items(rng, item_kind), 'container': rng.choice(['simiter', 'simlist', 'list', 'gen', 'simiter'])}
            for _ in range(nseq)]
    if 'SumOfGroupSum' in str(g):
        # (an inner Group of a bare aggregator over NO items returns None, which the statement does not define)
        for sq in seqs:
            for it in sq['items']:
                if not it['v']:
                    it['v'].append(rng.randint(0, 9))
    mode = rng.choice(['repeat', 'repeat', 'interleave', 'interleave', 'nested', 'fault'])
    case = {'prop': PROP, 'seed': seed, 'knobs': simrun.draw_knobs(rng), 'gspec': g, 'limit': limit,
            'item_kind': item_kind, 'seqs': seqs, 'mode': mode}
    if mode == 'interleave':
        case['ntasks'] = min(nseq, rng.choice([2, 3]))
        case['switches'] = {}
        case['p_point'] = rng.choice([0.3, 0.7, 1.0])
        for s in seqs[:case['ntasks']]:
            s['container'] = rng.choice(['simiter', 'simlist'])
    elif mode == 'fault':
        case['fault_at'] = rng.randint(0, 5)
        case['fault_cls'] = rng.choice(['UserErr', 'ValueError', 'UGlomErr', 'KeyboardInterrupt'])
        seqs[0]['container'] = 'simiter'
    elif mode == 'nested':
        if g[0] != 'dict':
            case['gspec'] = g = ['dict', [[{'t': 'spec', 'v': ['fn', 'lt3'] if item_kind == 'int' else ['fn', 'len']}, g]]]
        if g[1][0][0]['v'][0] != 'fn':
            # the re-entering key must be a plain callable (it is composed with the nested probe)
            g[1][0][0]['v'] = ['fn', 'mod3'] if item_kind == 'int' else ['fn', 'len']
    return case


# ------------------------------------------------------------------------------------ reference

SKIP = object()


def _fn(r):
    """key / value spec recipe -> python function (may return SKIP)"""
    if r[0] == 'T':
        ops = r[2]
        if not ops:
            return lambda x: x
        op, arg = ops[0]
        if op == '%':
            return lambda x: x % arg
        if op == '[':
            return lambda x: x[arg]
    if r[0] == 'Auto':
        # a reduction evaluated in spec mode on the item itself (per item, no aggregation)
        return {'Sum': sum, 'Count': len}[r[1][0]]
    if r[0] == 'fn':
        return {
            'mod3': lambda x: x % 3, 'is_even': lambda x: x % 2 == 0, 'tostr': lambda x: f's{x}',
            'skip_odd': lambda x: SKIP if x % 2 else x, 'lt3': lambda x: x < 3, 'double': lambda x: x * 2,
            'inc': lambda x: x + 1, 'len': len, 'first_or0': lambda x: (x[0] if len(x) else 0),
            'nonempty': lambda x: len(x) > 0,
        }[r[1]]
    raise ValueError(r)


def plain(v):
    if isinstance(v, dict):
        if v['t'] == 'list':
            return [plain(x) for x in v['v']]
        if v['t'] == 'dict':
            return {k: plain(x) for k, x in v['v']}
        if v['t'] == 'anyeq':
            from ..collab import AnyEq
            return AnyEq()
    return v


class _Node:
    """incremental accumulator mirroring a hand-written bucketing loop: items are fed one by one"""

    def __init__(self, g):
        self.g = g
        self.kind = g[0]
        self.items = []
        self.children = OrderedDict()      # key -> _Node (dict levels)

    def feed(self, x):
        if self.kind == 'dict':
            for keyrec, sub in self.g[1]:
                k = _fn(keyrec['v'])(x)
                if k is SKIP:
                    continue
                if k not in self.children:
                    self.children[k] = _Node(sub)
                self.children[k].feed(x)
        else:
            self.items.append(x)

    def result(self):
        kind, items = self.kind, self.items
        if kind == 'dict':
            return {k: c.result() for k, c in self.children.items()}
        if kind == 'list':
            out = []
            for x in items:
                for vr in self.g[1]:
                    y = _fn(vr)(x)
                    if y is not SKIP:
                        out.append(y)
            return out
        if kind == 'SumOfGroupSum':
            return sum(sum(x) for x in items)
        if kind == 'First':
            return items[0]
        if kind == 'Max':
            return max(items)
        if kind == 'Min':
            return min(items)
        if kind == 'Avg':
            return sum(items, 0.0) / len(items)
        if kind == 'Sum':
            return sum(items)
        if kind == 'Count':
            return len(items)
        if kind == 'Flatten':
            out = []
            for x in items:
                out += x
            return out
        if kind == 'Merge':
            out = {}
            for x in items:
                out.update(x)
            return out
        raise ValueError(kind)


def build_ref(g, items):
    n = _Node(g)
    for x in items:
        n.feed(x)
    return n.result()


# ---- descriptor of the recorded finding: the STOP protocol of the pinned code, transliterated.
# It is NOT an oracle: it only decides whether a mismatch is exactly the known one
# ("STOP reported by one bucket's aggregator switches off the whole key level").

_STOP = object()


def _alt_eval(g, t, tree):
    kind = g[0]
    if kind == 'dict':
        acc = tree.setdefault(('acc', id(g)), {})
        done = True
        for idx, (keyrec, sub) in enumerate(g[1]):
            kid = ('keyspec', id(g), idx)
            if tree.get(kid) is _STOP:
                continue
            key = _fn(keyrec['v'])(t)
            if key is SKIP:
                done = False
                continue
            if key not in acc:
                tree[('bucket', key)] = {}
            result = _alt_eval(sub, t, tree[('bucket', key)])
            if result is _STOP:
                tree[kid] = _STOP
                continue
            done = False
            if result is not SKIP:
                acc[key] = result
        return _STOP if done else acc
    if kind == 'list':
        acc = tree.setdefault(('acc', id(g)), [])
        for vr in g[1]:
            r = _fn(vr)(t)
            if r is not SKIP:
                acc.append(r)
        return acc
    if kind == 'SumOfGroupSum':
        a_ = ('agg', id(g))
        tree[a_] = tree.get(a_, 0) + sum(t)
        return tree[a_]
    a = ('agg', id(g))
    if kind == 'First':
        if a not in tree:
            tree[a] = _STOP
            return t
        return _STOP
    if kind == 'Max':
        if a not in tree or t > tree[a]:
            tree[a] = t
        return tree[a]
    if kind == 'Min':
        if a not in tree or t < tree[a]:
            tree[a] = t
        return tree[a]
    if kind == 'Avg':
        acc = tree.setdefault(a, [0.0, 0])
        acc[0] += t
        acc[1] += 1
        return acc[0] / acc[1]
    if kind == 'Sum':
        tree[a] = tree.get(a, 0) + t
        return tree[a]
    if kind == 'Count':
        tree[a] = tree.get(a, 0) + 1
        return tree[a]
    if kind == 'Flatten':
        acc = tree.setdefault(a, [])
        acc += t
        return acc
    if kind == 'Merge':
        acc = tree.setdefault(a, {})
        acc.update(t)
        return acc
    raise ValueError(kind)


def known_stop_semantics(case, i):
    items = [plain(x) for x in case['seqs'][i]['items']]
    g = case['gspec']
    tree = {}
    ret = {} if g[0] == 'dict' else ([] if g[0] == 'list' else None)
    n = 0
    for t in items:
        if case['limit'] is not None:
            n += 1
            if n > case['limit']:
                break
        last, ret = ret, _alt_eval(g, t, tree)
        if ret is _STOP:
            return last
    return ret


def reference(case, i):
    items = [plain(x) for x in case['seqs'][i]['items']]
    g = case['gspec']
    if case['limit'] is not None:
        if not items or case['limit'] == 0:
            return None        # Group(Limit(..)) that never admits an item: not covered by the statement
        items = items[:case['limit']]
    if not items:
        return {} if g[0] == 'dict' else ([] if g[0] == 'list' else None)
    return build_ref(g, items)


# ------------------------------------------------------------------------------------ world

class World:
    def __init__(self, case, faults=None, gen_rng=None):
        self.G = simrun.make_instance(case['knobs'])
        self.k = simrun.make_kernel(self.G, seed=0, faults=faults, gen_rng=gen_rng,
                                    p_point=case.get('p_point', 0) if gen_rng is not None else 0,
                                    switches=case.get('switches'))
        g = case['gspec']
        top = ['Limit', case['limit'], g] if case['limit'] is not None else g
        shared = [['Group', top]]
        if case['mode'] == 'nested':
            # the key function of the first level re-enters the SAME Group object on another sequence
            inner_items = case['seqs'][-1]['items']
            keyrec = g[1][0][0]['v']
            nested = ['probe', 9, 'nested', {'target': {'t': 'list', 'v': inner_items}, 'spec': ['shared', 0],
                                             'handle': 'passthrough', 'max_depth': 1}]
            g2 = ['dict', [[{'t': 'spec', 'v': ['compose', nested, keyrec]}, g[1][0][1]]] + g[1][1:]]
            top = ['Limit', case['limit'], g2] if case['limit'] is not None else g2
            shared = [['Group', top]]
        self.B = build.Builder(self.G, self.k, shared=shared)
        self.spec = self.B.spec(['shared', 0])
        self.case = case

    def target(self, i):
        s = self.case['seqs'][i]
        return self.B.value({'t': s['container'], 'n': 100 + i, 'v': s['items']})


def run_case(case, gen_rng=None):
    viols = []
    mode = case['mode']
    stats = {'mode_' + mode: 1}

    def V(clause, detail, expected, observed):
        viols.append({'clause': clause, 'sig': f'{clause}/{detail}', 'expected': expected, 'observed': observed})

    def st(n_, x=1):
        stats[n_] = stats.get(n_, 0) + x
    faults = None
    if mode == 'fault':
        faults = {f'0:o100.next#{case["fault_at"]}': {'cls': case['fault_cls']}}
    W = World(case, faults=faults, gen_rng=gen_rng if mode == 'interleave' else None)
    G = W.G
    leaf = _leaf_kinds(case['gspec'])
    desc = '+'.join(sorted(leaf)) + ('/Limit' if case['limit'] is not None else '') + f'/levels{_levels(case["gspec"])}'

    produced = {}       # id(container built by an earlier evaluation) -> evaluation index (objects kept alive)
    keep = []

    def built(v, g):
        """the containers Group itself builds for a result of shape g (dict levels, [value] leaves)"""
        if g[0] == 'dict' and type(v) is dict:
            yield v
            subs = [sub for _, sub in g[1]]
            if all(sub[0] in ('dict', 'list') for sub in subs) and len({sub[0] for sub in subs}) == 1:
                for x in dict.values(v):
                    yield from built(x, subs[0])
        elif g[0] == 'list' and type(v) is list:
            yield v

    def check(i, res, how):
        exp = reference(case, i)
        if res[0] == 'ok':
            # "accumulation state lives only for one evaluation": what one evaluation returns is never
            # the object another evaluation returns (else filling one result fills the other)
            for c in built(res[1], case['gspec']):
                if id(c) in produced and produced[id(c)] != i:
                    V('state-carried-over', f'result-container-shared-between-evaluations/{desc}',
                      'a fresh container per evaluation', f'evaluation {i} returned a container of evaluation {produced[id(c)]}')
                    break
                produced[id(c)] = i
            keep.append(res[1])
        if res[0] != 'ok':
            V('group-result', f'raised/{how}/{desc}', canon.canon(exp), canon.outcome(res, with_text=False))
        elif canon.canon(res[1]) != canon.canon(exp):
            detail = f'{how}/{desc}'
            if 'First' in leaf and _levels(case['gspec']) >= 1:
                try:
                    if canon.canon(known_stop_semantics(case, i)) == canon.canon(res[1]):
                        detail = 'First-under-key-level/STOP-from-one-bucket-ends-the-key-level'
                except Exception:
                    pass
            V('group-result', detail, canon.canon(exp), canon.canon(res[1]))
    try:
        snap = canon.snapshot(W.spec)
        if mode in ('repeat', 'fault', 'nested'):
            n = len(case['seqs']) - (1 if mode == 'nested' else 0)
            for i in range(n):
                t = W.target(i)
                res = W.k.run_single(lambda: G.glom(t, W.spec))
                st('evaluations')
                if mode == 'fault' and i == 0 and W.k.fired:
                    st('fault.' + case['fault_cls'])
                    st('reach.aborted_evaluation')
                    X = W.k.cat.cls(case['fault_cls'])
                    if res[0] != 'exc' or not isinstance(res[1], X):
                        V('fault', 'source-fault-class-lost', case['fault_cls'], canon.outcome(res, with_text=False))
                    continue
                check(i, res, mode)
                if mode == 'nested':
                    st('reach.reentrant_same_group', sum(1 for e in W.k.log if e[3] == 'nested-entry'))
                    # each nested evaluation must equal the reference of the inner sequence
                    exp_in = canon.canon(reference(case, len(case['seqs']) - 1))
                    for e in W.k.log:
                        if e[3] == 'nested-outcome' and e[4] != ['ok', exp_in]:
                            detail = f'nested-inner/{desc}'
                            if 'First' in leaf:
                                try:
                                    if ['ok', canon.canon(known_stop_semantics(case, len(case['seqs']) - 1))] == e[4]:
                                        detail = 'First-under-key-level/STOP-from-one-bucket-ends-the-key-level'
                                except Exception:
                                    pass
                            V('group-result', detail, ['ok', exp_in], e[4])
                            break
                    del W.k.log[:]
        else:
            n = case['ntasks']
            ts = [W.target(i) for i in range(n)]
            results = W.k.run_tasks([(lambda t=t: G.glom(t, W.spec)) for t in ts])
            if gen_rng is not None:
                case['switches'] = {str(a): b for a, b in sorted(W.k.switches.items())}
            st('evaluations', n)
            st('switches', W.k.n_switches)
            if W.k.n_switches > n:
                st('reach.interleaved_at_source')
            for i in range(n):
                check(i, results[i], 'interleaved')
        if not canon.snap_equal(snap, canon.snapshot(W.spec)):
            V('spec-unchanged', desc, 'Group spec object unchanged by evaluation', canon.snap_diff(snap, canon.snapshot(W.spec)))
    except SimBudgetExceeded:
        st('budget_exceeded')
    d = W.k.digest()
    for v in viols:
        v['digest'] = d
    shape = simrun.jhash([case['gspec'], case['limit'], case['seqs'], mode, case.get('switches')])
    return {'violations': viols, 'digest': d, 'stats': stats, 'shape': shape, 'nontrivial': True,
            'events': len(W.k.log)}


def _leaf_kinds(g):
    if g[0] == 'dict':
        out = set()
        for _, sub in g[1]:
            out |= _leaf_kinds(sub)
        return out
    return {g[0]}


def _levels(g):
    if g[0] == 'dict':
        return 1 + max(_levels(sub) for _, sub in g[1])
    return 0


def run_seed(seed, tier):
    case = gen_case(seed, tier)
    rng = random.Random(seed ^ 0x16C16)
    r = run_case(case, gen_rng=rng)
    out = {'runs': max(1, r['stats'].get('evaluations', 1)), 'events': r['events'], 'lines': 0, 'stats': r['stats'],
           'shapes': [r['shape']], 'violations': [], 'harness_errors': [], 'trace_digests': [r['digest']]}
    if case['mode'] == 'interleave' and (seed % 4 == 0 or r['violations']):
        r2 = run_case(copy.deepcopy(case))
        out['stats']['replay_checked'] = 1
        if r2['digest'] != r['digest']:
            out['harness_errors'].append([seed, 'replay digest mismatch'])
    for v in r['violations']:
        out['violations'].append(dict(v, case=case))
    if seed % 500 == 0:
        out['sample'] = {'seed': seed, 'gspec': case['gspec'], 'limit': case['limit'], 'mode': case['mode'],
                         'seqs': case['seqs'][:2]}
    return out
