"""C07 — scope bindings are lexically scoped, chain forward, never outlive the call.

System: one private instance through a history of top-level calls that share spec objects (hence
Vars objects) and ``scope=`` dicts; 2-3 calls may be in flight at once under the baton scheduler
(yield points: identity probes inside the specs); probes may make re-entrant calls.
Oracle: (1) every call's result equals the lexical-frame reference model (models/frames.py)
evaluated for that call alone — tokens are derived from the call's own unique target, so a value
leaking from another call, from an earlier call, or from a sibling/enclosing position shows up as a
mismatch; (2) the caller's scope mapping is identical (ids and contents) after every call;
(3) the spec object graph (incl. Vars defaults) is unchanged.
"""
import copy
import random

from .. import simrun, canon, build
from ..kernel import SimBudgetExceeded
from ..models import frames

PROP = 'C07'
LEVEL = 'exploration'
RULE = ('seeded histories of 2-8 top-level calls over 1-3 shared spec objects built from binders '
        '(S(k=..), A.k, A.globals.k, Vars, Regex groups, Spec(scope=), Ref) and readers (S.k, S[k], '
        'S.globals.k, S.v.k) placed over tuple/Pipe/dict/list/Coalesce/And/Or/Switch/Match-dict trees, '
        'some calls interleaved by the seeded scheduler or nested re-entrantly; distinct = hash(spec '
        'recipes, call sequence, switch sequence); non-trivial = spec has >= 1 binder and >= 1 reader '
        'and the history re-uses a spec object or interleaves calls')
ASSUMPTIONS = [
    'the lexical-frame model (models/frames.py) is the trusted reading of the statement; where the '
    'statement is silent (Spec(scope=) / Ref definitions seen by later chain steps) the generator '
    'does not place readers',
    'yield points are identity probes; line-level pre-emption is exercised by C20',
]

NAMES = ['k1', 'k2', 'k3']
GNAMES = ['g1', 'g2']
EMPTY = frames.EMPTY


def budget(tier):
    if tier == 'thorough':
        return {'seeds': 400000, 'wall': 900, 'chunk': 100}
    return {'seeds': 30000, 'wall': 200, 'chunk': 50}


class _G:
    def __init__(self, rng):
        self.rng = rng
        self.pid = 0
        self.tok = 0
        self.binders = 0
        self.readers = 0
        self.spec_keys = []      # Spec(scope=) keys readable only inside their subtree
        self.refs = []           # Ref names definable
        self.vars_bound = []     # Vars names visible (lexically) at this point
        self.depth_limit = 4
        self.in_match = False
        self.seen_names = []     # names bound anywhere so far (visible or not)
        self.seen_globals = []

    def token(self):
        self.tok += 1
        return f'w{self.tok}'

    def btoken(self):
        """a value to BIND: now and then a falsy one (a binding is a binding whatever its truth value)"""
        if self.rng.random() < 0.2:
            # (0 / False / 0.0 and 1 / True / 1.0 are equal but distinguishable: a re-binding to an
            # EQUAL value is still a new binding)
            return self.rng.choice([0, '', False, None, 0.0, 1, True, 1.0])
        return self.token()

    def new_pid(self):
        self.pid += 1
        return self.pid

    # -------------------------------------------------------------- readers / binders
    def reader(self, names=None):
        rng = self.rng
        self.readers += 1
        r = rng.random()
        if self.spec_keys and r < 0.25:
            name = rng.choice(self.spec_keys)
        elif self.vars_bound and r < 0.4:
            v = rng.choice(self.vars_bound)
            return ['Coalesce', [['T', 'S', [['.', v], ['.', rng.choice(['x', 'd'])]]]], {'default': EMPTY}]
        elif r < (0.55 if self.seen_globals else 0.44):
            gn = rng.choice(self.seen_globals) if self.seen_globals and rng.random() < 0.8 else rng.choice(GNAMES)
            return ['Coalesce', [['T', 'S', [['.', 'globals'], ['.', gn]]]], {'default': EMPTY}]
        elif self.seen_names and rng.random() < 0.8:
            name = rng.choice(self.seen_names[-4:])
        else:
            name = rng.choice(names or NAMES)
        if rng.random() < 0.6:
            return ['Coalesce', [['T', 'S', [['.', name]]]], {'default': EMPTY}]
        return ['Coalesce', [['T', 'S', [['[', name]]]], {'default': EMPTY}]

    def binder_steps(self):
        """-> list of chain steps that bind something"""
        rng = self.rng
        self.binders += 1
        r = rng.random()
        name = rng.choice(NAMES)
        if r < 0.8 or r >= 0.9:
            self.seen_names.append(name)
        if r < 0.3:
            return [['T', 'S', [['(', [[], {name: {'t': 'spec', 'v': ['Val', self.btoken()]}}]]]]]
        if r < 0.45:
            return [['T', 'S', [['(', [[], {name: {'t': 'spec', 'v': ['T', 'T', []]}}]]]]]
        if r < 0.55:
            # the bound value is itself computed by a spec that reads the scope
            return [['T', 'S', [['(', [[], {name: {'t': 'spec', 'v': self.reader()}}]]]]]
        if r < 0.7:
            return [['T', 'A', [['.', name]]]]
        if r < 0.8:
            return [['Val', self.btoken()], ['T', 'A', [['.', name]]]]
        if r < 0.86:
            gn = rng.choice(GNAMES)
            self.seen_globals.append(gn)
            return [['T', 'A', [['.', 'globals'], ['.', gn]]]]
        n2 = rng.choice([x for x in NAMES if x != name])
        self.seen_names.append(n2)
        if rng.random() < 0.5:
            # the later keyword's value READS the name the earlier keyword binds: it must see the outer
            # binding (or none), never its sibling's
            return [['T', 'S', [['(', [[], {name: {'t': 'spec', 'v': ['Val', self.btoken()]},
                                           n2: {'t': 'spec', 'v': ['Coalesce', [['T', 'S', [['.', name]]]], {'default': EMPTY}]}}]]]]]
        return [['T', 'S', [['(', [[], {name: self.btoken(), n2: {'t': 'spec', 'v': ['T', 'T', []]}}]]]]]

    def failing(self):
        return self.rng.choice([['str', 'zz'], ['T', 'S', [['.', 'never_bound']]], ['T', 'T', [['[', 'zz']]]])

    # -------------------------------------------------------------- spec trees
    def spec(self, depth=0):
        rng = self.rng
        if depth >= self.depth_limit:
            return self.leaf()
        opts = ['chain'] * 5 + ['dict'] * 3 + ['leaf'] * 2 + ['coalesce', 'and', 'or', 'switch', 'switch',
                                                             'list', 'specscope', 'vars', 'regex', 'matchdict',
                                                             'ref', 'nested', 'wrap', 'mutlit']
        c = rng.choice(opts)
        d = depth + 1
        if c == 'leaf':
            return self.leaf()
        if c == 'chain':
            steps = []
            saved_vars = list(self.vars_bound)
            for _ in range(rng.randint(2, 4)):
                r = rng.random()
                if r < 0.35:
                    bs = self.binder_steps()
                    if rng.random() < 0.15:
                        # a binder wrapped in Spec() / Auto(): the wrapper is a spec of its own, what is
                        # bound inside it stays inside it
                        bs[-1] = [rng.choice(['Spec', 'Auto']), bs[-1]]
                    steps.extend(bs)
                elif r < 0.6:
                    steps.append(self.reader() if rng.random() < 0.5 else self.spec(d))
                elif r < 0.7:
                    steps.append(['probe', self.new_pid(), 'id'])
                elif r < 0.8:
                    steps.append(['Val', self.token()])
                else:
                    steps.append(self.spec(d))
            steps.append(self.observe(d))
            self.vars_bound = saved_vars
            return [rng.choice(['tuple', 'tuple', 'Pipe']), steps]
        if c == 'dict':
            return self.observe(d, n=rng.randint(2, 3), force=True)
        if c == 'coalesce':
            subs = [self.failing() if rng.random() < 0.5 else self.spec(d) for _ in range(rng.randint(1, 3))]
            return ['Coalesce', subs, {'default': self.token()}]
        if c == 'and':
            subs = [self.spec(d) for _ in range(rng.randint(1, 3))]
            if rng.random() < 0.4:
                # a binder as a direct operand, then an operand that reads: operands are siblings
                subs.insert(rng.randint(0, len(subs) - 1), self.binder_steps()[-1])
                subs.append(self.observe(d))
            return ['Coalesce', [['And', subs]], {'default': self.token()}]
        if c == 'or':
            subs = [self.failing() if rng.random() < 0.4 else self.spec(d) for _ in range(rng.randint(1, 3))]
            if rng.random() < 0.3:
                subs = [['tuple', self.binder_steps() + [self.failing()]]] + subs + [self.observe(d)]
            return ['Or', subs, {'default': self.token()}]
        if c == 'switch':
            cases = []
            for _ in range(rng.randint(1, 3)):
                r = rng.random()
                if r < 0.45:
                    key = self.binder_steps()[-1]
                elif r < 0.6:
                    key = ['tuple', self.binder_steps() + [['probe', self.new_pid(), 'id']]]
                elif r < 0.8:
                    key = self.failing()
                else:
                    key = ['M', None]
                cases.append([key, self.observe(d)])
            return ['Switch', cases, {'default': self.token()}]
        if c == 'list':
            return ['tuple', [['Val', {'t': 'list', 'v': [self.token(), self.token()]}],
                              ['list', [self.spec(d)]]]]
        if c == 'specscope':
            key = rng.choice(['sk1', 'sk2'])
            self.spec_keys.append(key)
            body = self.observe(d)
            self.spec_keys.pop()
            return ['Spec', body, [[key, self.token()]]]
        if c == 'vars':
            v = rng.choice(['v1', 'v2'])
            self.vars_bound.append(v)
            form = rng.choice(['defaults', 'bare', 'base', 'base+defaults'])
            base = [['d', self.token()]] if form in ('base', 'base+defaults') else []
            dflt = [['d', self.token()]] if form == 'defaults' else ([['e', self.token()]] if form == 'base+defaults' else [])
            steps = [['T', 'S', [['(', [[], {v: {'t': 'spec', 'v': ['Vars', base, dflt]}}]]]],
                     self.observe(d), ['Val', self.token()],
                     ['T', 'A', [['.', v], ['.', 'x']]]]
            steps.append(self.observe(d))
            self.vars_bound.pop()
            self.binders += 1
            return ['tuple', steps]
        if c == 'mutlit':
            # a mutable literal bound with S(), written through the scope: every evaluation binds a
            # fresh copy, so the read BEFORE the write never shows what an earlier evaluation stored
            name = rng.choice(['m1', 'm2'])
            lit = {'t': 'dict', 'v': [] if rng.random() < 0.6 else [['z', self.token()]]}
            rd = lambda: ['Coalesce', [['T', 'S', [['.', name], ['[', 'a']]]], {'default': EMPTY}]
            self.binders += 1
            self.seen_names.append(name)
            return ['tuple', [['T', 'S', [['(', [[], {name: lit}]]]],
                              ['T', 'S', [['(', [[], {name + 'b': {'t': 'spec', 'v': rd()}}]]]],
                              ['Val', self.token()],
                              ['T', 'A', [['.', name], ['[', 'a']]],
                              ['dict', [['before', ['T', 'S', [['.', name + 'b']]]], ['after', rd()], ['whole', ['Coalesce', [['T', 'S', [['.', name]]]], {'default': EMPTY}]],
                                        ['rest', self.observe(d)]]]]]
        if c == 'regex':
            word = rng.choice(['ab12', 'zz9', 'q0'])
            self.binders += 1
            return ['tuple', [['Val', word], ['Regex', r'(?P<k1>[a-z]+)(?P<k2>\d+)'], self.observe(d)]]
        if c == 'matchdict':
            self.binders += 1
            keyspec = rng.choice([
                {'t': 'spec', 'v': ['Regex', r'(?P<k1>[a-z]+)(?P<k3>\d+)']},
                {'t': 'spec', 'v': ['T', 'S', [['(', [[], {'k2': {'t': 'spec', 'v': ['T', 'T', []]}}]]]]},
            ])
            pairs = [[keyspec, ['Auto', self.observe(d)]]]
            if rng.random() < 0.5:
                pairs.insert(0, ['fixed', ['Auto', self.observe(d)]])
            tgt = {'t': 'dict', 'v': [['ab12', self.token()], ['fixed', self.token()]] if len(pairs) == 2
                   else [['ab12', self.token()], ['cd3', self.token()]]}
            return ['tuple', [['Val', tgt], ['Match', ['dict', pairs]]]]
        if c == 'ref':
            # (a Ref name may coincide with a variable name: Ref definitions and S variables are
            # separate name spaces)
            name = rng.choice(['r1', 'r2', 'k1', 'k2'])
            if name in NAMES:
                self.seen_names.append(name)
            r = rng.random()
            if r < 0.5:
                # counting recursion with a binder per level (shadowing across recursion levels)
                self.binders += 1
                body = ['tuple', [['T', 'S', [['(', [[], {'k1': {'t': 'spec', 'v': ['T', 'T', []]}}]]]],
                                  ['Switch', [[['M', 'M', '==', 0], self.observe(d)],
                                              [['M', None], ['tuple', [['T', 'T', [['-', 1]]], ['Ref', name]]]]]]]]
                return ['tuple', [['Val', rng.randint(0, 3)], ['Ref', name, body]]]
            # nearest enclosing definition: inner redefinition shadows inside its own subtree only
            if r < 0.8:
                tok_in = self.token()
                inner_rec = ['Ref', name, ['Switch', [[['M', 'M', '==', 0], ['Val', tok_in]],
                                                       [['M', None], ['tuple', [['T', 'T', [['-', 1]]], ['Ref', name]]]]]]]
                outer_body = ['dict', [['inner', ['tuple', [['Val', rng.randint(0, 2)], inner_rec]]],
                                       ['obs', self.observe(d)], ['val', ['Val', self.token()]]]]
                return ['Ref', name, outer_body]
            inner = ['Ref', name, ['dict', [['inner_use', ['Coalesce', [['Val', self.token()]], {}]]]]]
            outer_body = ['dict', [['redef', inner], ['obs', self.observe(d)], ['val', ['Val', self.token()]]]]
            return ['Ref', name, outer_body]
        if c == 'nested':
            inner = self.observe(d)
            return ['probe', self.new_pid(), 'nested', {'target': 'arg', 'spec': inner, 'handle': 'return'}]
        if c == 'wrap':
            return ['Auto', self.spec(d)]
        raise AssertionError(c)

    def observe(self, depth, n=None, force=False):
        """a dict of readers (and nested specs): what is visible from this position"""
        rng = self.rng
        n = n or rng.randint(1, 3)
        pairs = []
        for i in range(n):
            r = rng.random()
            if r < 0.6 or depth >= self.depth_limit:
                pairs.append([f'r{i}', self.reader()])
            else:
                pairs.append([f's{i}', self.spec(depth + 1)])
        if not force and rng.random() < 0.25:
            return pairs[0][1]
        return ['dict', pairs]

    def leaf(self):
        rng = self.rng
        r = rng.random()
        if r < 0.5:
            return self.reader()
        if r < 0.65:
            return ['Val', self.token()]
        if r < 0.8:
            return ['T', 'T', []]
        return ['probe', self.new_pid(), 'id']


def gen_case(seed, tier):
    rng = random.Random(seed)
    g = _G(rng)
    g.depth_limit = rng.choice([2, 3, 4])
    nspecs = rng.randint(1, 3)
    shared = [g.spec(0) for _ in range(nspecs)]
    scopes = [[], [['k1', 'from-caller'], ['k9', 'unused']], [['k2', {'t': 'dict', 'v': [['inner', 1]]}]]]
    ncalls = rng.randint(2, 8)
    calls = []
    for i in range(ncalls):
        calls.append({'spec': rng.randrange(nspecs), 'scope': rng.randrange(len(scopes)),
                      'target': f'c{i}x', 'api': rng.choice(['glom', 'glom', 'glom', 'glommer', 'spec.glom'])})
    # group calls into ops: sequential singles or concurrent groups of 2-3
    ops = []
    i = 0
    while i < ncalls:
        if rng.random() < 0.4 and i + 1 < ncalls:
            n = min(rng.choice([2, 2, 3]), ncalls - i)
            ops.append({'calls': list(range(i, i + n)), 'switches': {}, 'p_point': rng.choice([0.3, 0.7, 1.0])})
            i += n
        else:
            ops.append({'calls': [i]})
            i += 1
    knobs = simrun.draw_knobs(rng)
    return {'prop': PROP, 'seed': seed, 'knobs': knobs, 'shared': shared, 'scopes': scopes,
            'calls': calls, 'ops': ops, 'meta': {'binders': g.binders, 'readers': g.readers}}


def _plain(v):
    """value recipe -> plain python value (model side)"""
    if isinstance(v, dict):
        t = v['t']
        if t in ('dict',):
            return {_plain(k): _plain(x) for k, x in v['v']}
        if t == 'list':
            return [_plain(x) for x in v['v']]
        if t == 'tuple':
            return tuple(_plain(x) for x in v['v'])
        raise NotImplementedError(t)
    return v


def model_outcome(case, ci):
    call = case['calls'][ci]
    m = frames.Model(_plain, shared=case['shared'])
    scope_kw = {k: _plain(v) for k, v in case['scopes'][call['scope']]}
    if call['api'] == 'glommer':
        scope_kw = {}
    try:
        return ['ok', canon.canon(m.call(call['target'], ['shared', call['spec']], scope_kw))]
    except frames.ModelFail:
        return ['fail']
    except (NotImplementedError, TypeError, RecursionError):
        return ['skip']


def run_case(case, gen_rng=None):
    stats = {}
    viols = []
    G = simrun.make_instance(case['knobs'])
    k = simrun.make_kernel(G, seed=case['seed'])
    B = build.Builder(G, k, shared=case['shared'])
    specs = [B.spec(['shared', i]) for i in range(len(case['shared']))]
    scope_maps = [{kk: B.value(vv) for kk, vv in sc} for sc in case['scopes']]
    glommer = G.Glommer()
    spec_wrappers = [G.Spec(sp) for sp in specs]     # re-used Spec objects for the Spec.glom() entry point
    trace = []

    def st(n_, x=1):
        stats[n_] = stats.get(n_, 0) + x

    def thunk(ci):
        call = case['calls'][ci]
        spec = specs[call['spec']]
        if call['api'] == 'glommer':
            return lambda: glommer.glom(call['target'], spec)
        sm = scope_maps[call['scope']]
        if call['api'] == 'spec.glom':
            w = spec_wrappers[call['spec']]
            return lambda: w.glom(call['target'], scope=sm)
        return lambda: G.glom(call['target'], spec, scope=sm)

    spec_holder = [specs, spec_wrappers]
    spec_snap0 = canon.snapshot(spec_holder)
    for op in case['ops']:
        cis = op['calls']
        snaps = canon.snapshot(scope_maps)
        k.counts = {}
        if len(cis) == 1:
            results = [k.run_single(thunk(cis[0]))]
        else:
            k.yp = 0
            k.switch_seq = []
            if gen_rng is not None:
                k.gen_rng, k.p_point = gen_rng, op['p_point']
                k.switches = {}
            else:
                k.gen_rng = None
                k.switches = {int(a): b for a, b in op['switches'].items()}
            results = k.run_tasks([thunk(ci) for ci in cis])
            if gen_rng is not None:
                op['switches'] = {str(a): b for a, b in sorted(k.switches.items())}
            k.gen_rng, k.p_point = None, 0
            st('concurrent_groups')
            st('switches', k.n_switches)
        after = canon.snapshot(scope_maps)
        if not canon.snap_equal(snaps, after):
            viols.append({'clause': 'caller-scope-unchanged', 'sig': 'caller-scope-unchanged',
                          'expected': 'scope= mapping identical after the call',
                          'observed': canon.snap_diff(snaps, after)})
        for ci, res in zip(cis, results):
            st('calls')
            exp = model_outcome(case, ci)
            if res[0] == 'ok':
                obs = ['ok', canon.canon(res[1])]
            elif isinstance(res[1], G.GlomError):
                obs = ['fail']
            else:
                obs = ['exc', type(res[1]).__name__, canon.norm_text(str(res[1]))[:300]]
            trace.append([ci, simrun.jhash(obs)])
            if exp[0] == 'skip':
                st('model_skip')
                continue
            if exp != obs:
                viols.append({'clause': 'lexical-model', 'sig': 'lexical-model/' + _classify(exp, obs),
                              'expected': exp, 'observed': obs, 'call': ci})
    spec_snap1 = canon.snapshot(spec_holder)
    if not canon.snap_equal(spec_snap0, spec_snap1):
        viols.append({'clause': 'spec-unchanged', 'sig': 'spec-unchanged',
                      'expected': 'spec object graph (incl. Vars defaults) unchanged by evaluation',
                      'observed': canon.snap_diff(spec_snap0, spec_snap1)})
    digest = simrun.jhash([trace, k.digest()])
    for v in viols:
        v['digest'] = digest
    reuse = len(case['calls']) > len(set(c['spec'] for c in case['calls']))
    conc = any(len(o['calls']) > 1 for o in case['ops'])
    meta = case.get('meta', {})
    nontrivial = bool(meta.get('binders') and meta.get('readers') and (reuse or conc))
    shape = simrun.jhash([case['shared'], case['calls'], [o.get('switches') for o in case['ops']]])
    return {'violations': viols, 'digest': digest, 'stats': stats, 'shape': shape,
            'nontrivial': nontrivial, 'events': len(k.log), 'lines': k.ln}


def _classify(exp, obs):
    if exp[0] != obs[0]:
        return f'{exp[0]}-vs-{obs[0]}'
    import json
    a, b = json.dumps(exp), json.dumps(obs)
    # which foreign token shows up?
    import re as _re
    ta, tb = set(_re.findall(r'c\d+x', a)), set(_re.findall(r'c\d+x', b))
    if tb - ta:
        return 'foreign-call-token'
    if (EMPTY in a) != (EMPTY in b) or a.count(EMPTY) != b.count(EMPTY):
        return 'visibility'
    return 'value'


def run_seed(seed, tier):
    case = gen_case(seed, tier)
    rng = random.Random(seed ^ 0xC0FFEE)
    try:
        r = run_case(case, gen_rng=rng)
    except SimBudgetExceeded:
        return {'runs': 1, 'stats': {'budget_exceeded': 1}, 'shapes': [], 'violations': []}
    out = {'runs': 1, 'events': r['events'], 'lines': r['lines'], 'stats': r['stats'],
           'shapes': [r['shape']] if r['nontrivial'] else [], 'violations': [], 'harness_errors': [],
           'trace_digests': [r['digest']]}
    if seed % 6 == 0 or r['violations']:
        r2 = run_case(copy.deepcopy(case))
        out['runs'] += 1
        out['stats']['replay_checked'] = 1
        if r2['digest'] != r['digest']:
            out['harness_errors'].append([seed, 'replay digest mismatch', r['digest'], r2['digest']])
    for v in r['violations']:
        out['violations'].append(dict(v, case=case))
    if seed % 500 == 0:
        out['sample'] = {'seed': seed, 'shared': case['shared'][:1], 'calls': case['calls'],
                         'ops': case['ops'], 'digest': r['digest']}
    return out
