"""C20 — concurrent and re-entrant glom calls behave exactly as when run alone.

System: one private glom instance; 2-3 tasks (top-level glom calls) run on baton-passing threads,
the scheduler switching at collaborator points and (line mode) at line events inside glom's own
code; probes may make re-entrant glom calls (depth <= 3).  Oracle: isolated equivalence — each
task's outcome (value with identity links, or exception class/args/full trace text) and its own
collaborator-event log equal those of the same recipe run alone in a cold instance; each nested
call's outcome equals that of the nested recipe run alone at top level.
"""
import copy
import random

from .. import gen, simrun, canon, build
from ..kernel import SimBudgetExceeded
from ..simthreading import SimDeadlock
from . import c06 as _c06

PROP = 'C20'
LEVEL = 'exploration'
RULE = ('seeded: per seed a pool of 2-3 glom calls (type-directed random specs over random targets, '
        'some sharing one spec object and/or one read-only target, some with re-entrant nested '
        'calls), executed under a seeded random schedule (switches at collaborator points; in line '
        'mode also at line events inside glom) with a seeded collaborator-fault plan; distinct = '
        'hash(task recipes, switch sequence, fired faults); non-trivial = at least one task switch '
        'in the middle of a call or at least one nested call')
ASSUMPTIONS = [
    'pre-emption granularity is a collaborator call or a source line, not a bytecode',
    'tasks that mutate do so only on task-private targets',
    'the isolated reference is the same code in a cold private instance (differential oracle)',
]


def budget(tier):
    if tier == 'thorough':
        return {'seeds': 110000, 'wall': 900, 'chunk': 100}
    return {'seeds': 12000, 'wall': 200, 'chunk': 50}


def _gen_call(ctx, rng, depth=0):
    tgt = gen.gen_target(ctx)
    spec, _ = gen.gen_spec(ctx, tgt, 0)
    call = {'target': tgt, 'spec': spec, 'kw': {}}
    r = rng.random()
    if r < 0.15:
        call['kw']['default'] = 'top-default'
    elif r < 0.2:
        call['kw']['default'] = None
        call['kw']['skip_exc'] = ['ValueError', 'GlomError']
    if rng.random() < 0.15:
        call['kw']['scope'] = [['sv', rng.randint(0, 5)]]
    return call


def _plant_nested(ctx, rng, spec, depth):
    """wrap the spec so that a probe makes a re-entrant call (depth <= 3)"""
    inner_ctx = ctx
    ntgt = gen.gen_target(inner_ctx) if rng.random() < 0.7 else 'arg'
    nspec, _ = gen.gen_spec(inner_ctx, ntgt if ntgt != 'arg' else None, 1)
    if depth < 3 and rng.random() < 0.4:
        nspec = _plant_nested(ctx, rng, nspec, depth + 1)
    if rng.random() < 0.3:
        # the inner call returns a scalar (the name of its result's type): usable by the transparency oracle
        nspec = ['tuple', [nspec, ['fn', 'type'], ['T', 'T', [['.', '__name__']]]]]
    d = {'target': ntgt, 'spec': nspec, 'handle': rng.choice(['return', 'raise', 'raise', 'rewrap', 'swallow']),
         'depth': depth}
    p = ['probe', ctx.new_pid(), 'nested', d]
    r = rng.random()
    if r < 0.35:
        if rng.random() < 0.45:
            # no default: when the inner call fails every branch fails and the OUTER call raises a
            # CoalesceError whose trace has to render the inner error
            wrapped = ['Coalesce', [p] + ([gen.failing(ctx, None)] if rng.random() < 0.6 else []), {}]
        else:
            wrapped = ['Coalesce', [p], {'default': 'outer-caught'}]
        if rng.random() < 0.5:
            wrapped[2]['skip_exc'] = ['Exception']
    elif r < 0.5:
        wrapped = ['custom', ctx.new_pid(), p, 'scope']
    else:
        wrapped = p
    how = rng.random()
    if how < 0.4:
        return ['tuple', [spec, wrapped]]
    if how < 0.7:
        return ['dict', [['main', spec], ['nested', wrapped]]]
    return ['tuple', [wrapped, ['Val', 0], spec]] if rng.random() < 0.3 else ['dict', [['n', wrapped], ['m', spec]]]


def gen_case(seed, tier):
    rng = random.Random(seed)
    thorough = tier == 'thorough'
    knobs = simrun.draw_knobs(rng)
    line_p = 0.0
    r = rng.random()
    if r < (0.35 if thorough else 0.25):
        line_p = rng.choice([0.005, 0.02, 0.1])
    knobs['line_p'] = line_p
    if line_p and rng.random() < 0.6:
        # aim: one function that touches a long-lived container is pre-empted at (almost) every line
        from .. import focus, loader
        import os
        cands, writers = focus.candidates(os.path.join(loader.glom_src(), 'glom'))
        pool_ = writers if writers and rng.random() < 0.7 else cands
        if pool_:
            knobs['focus_fn'] = rng.choice(pool_)
    knobs['p_point'] = rng.choice([0.0, 0.15, 0.5, 0.5, 1.0])
    knobs['fault_rate'] = rng.choice([0, 0, 0.02, 0.08, 0.25])
    feats = gen.swarm_feats(rng)
    ctx = gen.Ctx(rng, feats=feats, sim=rng.choice([0.2, 0.5, 0.8]), fail=rng.choice([0.05, 0.15, 0.3]),
                  mutate=rng.random() < 0.3, max_depth=rng.choice([2, 3, 4]))
    ntasks = rng.choice([1, 2, 2, 3, 3])
    tasks = []
    shared = []
    for i in range(ntasks):
        ctx.bound = []
        call = _gen_call(ctx, rng)
        if rng.random() < 0.35:
            call['spec'] = _plant_nested(ctx, rng, call['spec'], 1)
        tasks.append(call)
    # sharing: same spec object and/or same read-only target (the production pattern)
    if ntasks >= 2 and rng.random() < 0.4 and not ctx.mutate:
        shared.append(tasks[0]['spec'])
        for t in tasks:
            if rng.random() < 0.7:
                t['spec'] = ['shared', 0]
                if rng.random() < 0.6:
                    t['target'] = copy.deepcopy(tasks[0]['target'])
        tasks[0]['spec'] = ['shared', 0]
    shared_targets = []
    if ntasks >= 2 and rng.random() < 0.3 and not ctx.mutate:
        st = copy.deepcopy(tasks[0]['target'])
        shared_targets.append(st)
        for t in tasks:
            if t['target'] == tasks[0]['target'] or rng.random() < 0.3:
                t['target'] = {'t': 'sharedtarget', 'i': 0}
    # one spec object whose per-item key reads the CALL's scope, shared by calls with different scope= values
    if ntasks >= 2 and rng.random() < 0.12:
        key = ['Call', ['fn', 'eq'], {'t': 'list', 'v': [{'t': 'spec', 'v': ['T', 'T', []]},
                                                           {'t': 'spec', 'v': ['T', 'S', [['.', 'sv']]]}]}, None]
        shared = [rng.choice([
            ['Iter', None, None, [], ['first', key, 'no-match']],
            ['tuple', [['Iter', None, None, [['filter', key]], None], ['fn', 'list']]],
            ['list', [['Coalesce', [['Check', key, {'equal_to': True}]], {'default': 'other'}]]],
        ])]
        vals = rng.sample(range(0, 6), ntasks)
        for i, t in enumerate(tasks):
            t['spec'] = ['shared', 0]
            t['target'] = {'t': 'simiter', 'n': ctx.new_nid(), 'v': [rng.randint(0, 5) for _ in range(rng.randint(2, 6))]}
            t['kw'] = {'scope': [['sv', vals[i]]]}
            t.pop('via', None)
    # one REDUCTION spec object (Sum / Flatten / Merge / Fold / Group) shared by calls that fold different
    # streams at the same time: what one call has accumulated so far is its own
    elif ntasks >= 2 and rng.random() < 0.1:
        kind = rng.choice(['sum', 'flatten', 'merge', 'fold', 'group'])
        shared = [{'sum': ['Sum'], 'flatten': ['Flatten'], 'merge': ['Merge'],
                   'fold': ['Fold', ['T', 'T', []], ['fn', 'int'], ['fn', 'add']],
                   'group': ['Group', ['dict', [[{'t': 'spec', 'v': ['fn', 'mod2']}, ['list', [['T', 'T', []]]]]]]]}[kind]]

        def item():
            if kind == 'flatten':
                return {'t': 'list', 'v': [rng.randint(0, 9) for _ in range(rng.randint(0, 2))]}
            if kind == 'merge':
                return {'t': 'dict', 'v': [[rng.choice(['a', 'b', 'c']), rng.randint(0, 9)]]}
            return rng.randint(0, 9)
        for t in tasks:
            t['spec'] = ['shared', 0]
            t['target'] = {'t': 'simiter', 'n': ctx.new_nid(), 'v': [item() for _ in range(rng.randint(2, 6))]}
            t['kw'] = {}
    # registries: some tasks go through Glommers that carry their own registrations
    glommers = []
    default_regs = []
    if rng.random() < 0.35:
        def some_regs():
            out = []
            for _ in range(rng.randint(1, 3)):
                op = rng.choice(list(_c06.REG_HANDLERS))
                out.append({'type': rng.choice(_c06.REG_TYPES), 'op': op, 'h': rng.choice(_c06.REG_HANDLERS[op]),
                            'exact': rng.random() < 0.3})
            if rng.random() < 0.3:
                # a duck type whose isinstance hook re-enters glom (never matches: look-ups go on as before)
                op = rng.choice(list(_c06.REG_HANDLERS))
                out.append({'type': 'NestedDuck', 'op': op, 'h': rng.choice(_c06.REG_HANDLERS[op]), 'exact': False})
            return out
        for _ in range(rng.randint(1, 2)):
            glommers.append({'defaults': rng.random() < 0.85, 'regs': some_regs()})
        if rng.random() < 0.4:
            default_regs = some_regs()
        for t in tasks:
            if rng.random() < 0.6:
                t['via'] = rng.randrange(len(glommers))
                t['kw'].pop('scope', None)
    return {'prop': PROP, 'seed': seed, 'knobs': knobs, 'shared': shared, 'glommers': glommers,
            'default_regs': default_regs,
            'shared_targets': shared_targets, 'tasks': tasks, 'faults': {}, 'switches': {},
            'exc_pool': (rng.sample(['ValueError', 'KeyError', 'TypeError', 'AttributeError',
                                     'UserErr', 'UGlomErr', 'RuntimeError', 'IndexError',
                                     'ZeroDivisionError'], 3) if rng.random() > 0.1 else
                         ['UserErr', 'UserErrTwin'])}     # two unrelated classes with the same __name__


_NO_STUB = object()


def _resolve_target(case, t):
    if isinstance(t, dict) and t.get('t') == 'sharedtarget':
        return ('shared', t['i'])
    return ('own', t)


class _World:
    """one private instance + kernel + builder with the case's objects"""

    def __init__(self, case, gen_rng=None, only_task=None, counts_init=None, eager_render=True, nested_stub=None):
        kn = case['knobs']
        self.G = simrun.make_instance(kn)
        for reg in case.get('default_regs') or []:
            _c06.apply_reg(self.G, reg)
        self.glommers = []
        for gd in case.get('glommers') or []:
            gl = self.G.Glommer(register_default_types=gd['defaults'])
            for reg in gd['regs']:
                _c06.apply_reg(gl, reg)
            self.glommers.append(gl)
        fault_gen = None
        if gen_rng is not None and kn.get('fault_rate'):
            rate, pool = kn['fault_rate'], case['exc_pool']

            def fault_gen(task, site, nth, kind, _r=gen_rng):
                if _r.random() < rate:
                    return {'cls': _r.choice(pool)}
                return None
        line_mode = bool(kn.get('line_p'))
        self.k = simrun.make_kernel(
            self.G, seed=case['seed'], faults=case.get('faults'), switches=case.get('switches'),
            gen_rng=gen_rng, p_point=kn.get('p_point', 0) if gen_rng is not None else 0,
            p_line=kn.get('line_p', 0) if gen_rng is not None else 0, fault_gen=fault_gen,
            counts_init=counts_init)
        if line_mode and gen_rng is None and only_task is None:
            self.k.enable_line_mode()
        self.k.focus_fn = kn.get('focus_fn')
        self.nested_log = []
        self.B = build.Builder(self.G, self.k, shared=case.get('shared'), on_nested=self._on_nested,
                               eager_render=eager_render, nested_stub=nested_stub)
        self.nested_results = {}
        self.shared_targets = {}
        self.case = case

    def _on_nested(self, d, res, pid=None, nth=None):
        if res[0] == 'ok':
            self.nested_results[(pid, nth)] = res[1]
        else:
            self.nested_results[(pid, nth)] = _NO_STUB

    def thunk_for(self, i):
        case = self.case
        call = dict(case['tasks'][i])
        how, t = _resolve_target(case, call['target'])
        via = call.get('via')
        glom_fn = self.G.glom if via is None or via >= len(self.glommers) else self.glommers[via].glom
        if how == 'shared':
            if t not in self.shared_targets:
                self.shared_targets[t] = self.B.value(case['shared_targets'][t])
            target = self.shared_targets[t]
            call = dict(call, target=0)
            th, _, spec, kw = simrun.call_thunk(self.G, self.B, call)
        else:
            th, target, spec, kw = simrun.call_thunk(self.G, self.B, call)
        if via is not None:
            kw.pop('scope', None)
        return lambda: simrun.consume(glom_fn(target, spec, **kw))


def _task_view(world, i, res):
    out = canon.outcome(res, world.B.idmap)
    log = world.k.task_log(i)
    return out, log


def run_case(case, gen_rng=None):
    stats = {}
    viols = []
    W = _World(case, gen_rng=gen_rng)
    n = len(case['tasks'])
    thunks = [W.thunk_for(i) for i in range(n)]
    results = W.k.run_tasks(thunks)
    if gen_rng is not None:
        case['switches'] = {str(k_): v for k_, v in sorted(W.k.switches.items())}
        case['faults'] = dict(W.k.faults)
    digest = W.k.digest()
    # ---- liveness: a call that ends in SimDeadlock would never have returned
    for i in range(n):
        if results[i][0] == 'exc' and isinstance(results[i][1], SimDeadlock):
            viols.append({'clause': 'liveness', 'sig': 'liveness/call-waits-for-a-lock-for-ever/' + str((W.k.deadlock or {}).get('kind')),
                          'expected': 'the call returns', 'observed': {'deadlock': W.k.deadlock, 'message': str(results[i][1])},
                          'task': i, 'digest': digest})
    if W.k.reach.get('lock.acquire'):
        stats['reach.lock_acquired'] = W.k.reach['lock.acquire']
    if W.k.reach.get('lock.contended'):
        stats['reach.lock_contended'] = W.k.reach['lock.contended']
    sim_views = [_task_view(W, i, results[i]) for i in range(n)]
    stats['tasks'] = n
    stats['switches'] = W.k.n_switches
    stats['events'] = len(W.k.log)
    stats['lines'] = W.k.ln
    for fk, cls, _sk in W.k.fired:
        stats['fault.' + cls] = stats.get('fault.' + cls, 0) + 1
    nested_events = [e for e in W.k.log if e[3] == 'nested-outcome']
    stats['nested_calls'] = len(nested_events)
    stats['exc_outcomes'] = sum(1 for v in sim_views if v[0][0] == 'exc')
    # ---- isolated references
    for i in range(n):
        Wi = _World(case, only_task=i)
        th = Wi.thunk_for(i)
        res = Wi.k.run_single(th, task_id=i)
        iso = _task_view(Wi, i, res)
        if canon.mentions_recursion([iso, sim_views[i]]):
            stats['recursion_not_comparable'] = stats.get('recursion_not_comparable', 0) + 1
            continue
        if iso[0] != sim_views[i][0]:
            viols.append({'clause': 'isolated-equivalence', 'sig': 'isolated-equivalence/outcome',
                          'expected': iso[0], 'observed': sim_views[i][0], 'task': i,
                          'digest': digest})
        elif iso[1] != sim_views[i][1]:
            a, b = iso[1], sim_views[i][1]
            j = next((x for x in range(min(len(a), len(b))) if a[x] != b[x]), min(len(a), len(b)))
            viols.append({'clause': 'isolated-equivalence', 'sig': 'isolated-equivalence/events',
                          'expected': a[j:j + 3], 'observed': b[j:j + 3], 'task': i,
                          'digest': digest})
    # ---- re-entrancy transparency: replace every successful nested call by its recorded result (the probe
    # returns it without re-entering glom); the outer call must not notice
    if not case.get('faults') and not case['knobs'].get('fault_rate'):
        for i in range(n):
            descs = {}
            _walk_nested([case['tasks'][i], case['shared']], descs)
            if not descs or any(('Assign' in str(d['spec']) or 'Delete' in str(d['spec'])) for d in descs.values()):
                continue
            Wr = _World(case, only_task=i)
            res_r = Wr.k.run_single(Wr.thunk_for(i), task_id=i)
            stub = {key: v for key, v in Wr.nested_results.items() if v is not _NO_STUB}
            if not stub or len(stub) != len(Wr.nested_results):
                continue        # only when every nested call returned a value
            if not all(type(v) in (int, str, float, bool, type(None)) for v in stub.values()):
                continue        # (objects recorded in one world have no identity in another: scalars only)
            Ws = _World(case, only_task=i, nested_stub=stub)
            res_s = Ws.k.run_single(Ws.thunk_for(i), task_id=i)
            a, b = canon.outcome(res_r, None), canon.outcome(res_s, None)
            stats['transparency_runs'] = stats.get('transparency_runs', 0) + 1
            if a != b and not canon.mentions_recursion([a, b]):
                viols.append({'clause': 'reentrancy-transparency', 'sig': 'reentrancy-transparency/outer-call-differs-when-the-nested-call-is-replaced-by-its-result',
                              'expected': b, 'observed': a, 'task': i, 'digest': digest})
    # ---- rendering order: an inner error may be rendered (str()) right when it is caught, or only later
    # while the OUTER error is being rendered; the outer call's outcome must not depend on that
    for i in range(n):
        if not _has_raising_nested(case['tasks'][i], case):
            continue
        Wl = _World(case, only_task=i, eager_render=False)
        res = Wl.k.run_single(Wl.thunk_for(i), task_id=i)
        lazy = canon.outcome(res, Wl.B.idmap)
        stats['lazy_render_runs'] = stats.get('lazy_render_runs', 0) + 1
        We = _World(case, only_task=i)
        eager = canon.outcome(We.k.run_single(We.thunk_for(i), task_id=i), We.B.idmap)
        if lazy != eager and not canon.mentions_recursion([lazy, eager]):
            viols.append({'clause': 'reentrant-rendering', 'sig': 'reentrant-rendering/outer-trace-depends-on-when-inner-error-is-rendered',
                          'expected': eager, 'observed': lazy, 'task': i, 'digest': digest})
    # ---- nested calls: the inner recipe alone at top level
    checked = 0
    for e in W.k.log:
        if e[3] != 'nested-entry' or checked >= 3:
            continue
        task, site, nth, _, info = e[:5]
        desc = _find_nested(case, info['pid'])
        if desc is None or desc.get('target', 'arg') == 'arg':
            continue
        outs = [x for x in W.k.log if x[0] == task and x[1] == site.replace('.entry', '.inner') and x[2] == nth]
        if not outs:
            continue   # the inner call never returned normally (BaseException)
        checked += 1
        Wn = _World(case, only_task=task, counts_init=info['counts'])
        tgt = Wn.B.value(desc['target'])
        spec = Wn.B.spec(desc['spec'])
        G = Wn.G
        res = Wn.k.run_single(lambda: G.glom(tgt, spec), task_id=task)
        alone = canon.outcome(res, Wn.B.idmap)
        if canon.mentions_recursion([alone, outs[0][4]]):
            continue
        if alone != outs[0][4]:
            viols.append({'clause': 'nested-equivalence', 'sig': 'nested-equivalence/outcome',
                          'expected': alone, 'observed': outs[0][4], 'task': task, 'digest': digest})
    stats['nested_checked'] = checked
    shape = simrun.jhash([case['tasks'], case['shared'], W.k.switch_seq, W.k.fired])
    mid_switch = W.k.n_switches > 0 and n > 1
    nontrivial = bool(mid_switch and len(W.k.switch_seq) > n) or stats['nested_calls'] > 0
    if W.k.ln:
        stats['line_mode_runs'] = 1
    if mid_switch and len(W.k.switch_seq) > n:
        stats['reach.mid_call_switch'] = 1
    if any(d >= 3 for d in _nested_depths(W.k.log, case)):
        stats['reach.nested_depth3'] = 1
    return {'violations': viols, 'digest': digest, 'stats': stats, 'shape': shape,
            'nontrivial': nontrivial, 'events': len(W.k.log), 'lines': W.k.ln}


def _has_raising_nested(task, case):
    cache = {}
    _walk_nested([task, case['shared'] if task['spec'] == ['shared', 0] or 'shared' in str(task['spec']) else []], cache)
    return any(d.get('handle', 'raise') == 'raise' for d in cache.values())


def _walk_nested(node, out):
    if isinstance(node, list):
        if len(node) >= 4 and node[0] == 'probe' and node[2] == 'nested':
            out[node[1]] = node[3]
        for x in node:
            _walk_nested(x, out)
    elif isinstance(node, dict):
        for x in node.values():
            _walk_nested(x, out)


def _find_nested(case, pid):
    cache = case.get('_nested_cache')
    if cache is None:
        cache = {}
        _walk_nested([case['tasks'], case['shared']], cache)
    return cache.get(pid)


def _nested_depths(log, case):
    cache = {}
    _walk_nested([case['tasks'], case['shared']], cache)
    for e in log:
        if e[3] == 'nested-entry':
            d = cache.get(e[4]['pid'])
            if d:
                yield d.get('depth', 1)


def run_seed(seed, tier):
    case = gen_case(seed, tier)
    rng = random.Random(seed ^ 0x5DEECE66D)
    try:
        r = run_case(case, gen_rng=rng)
    except SimBudgetExceeded:
        return {'runs': 1, 'stats': {'budget_exceeded': 1}, 'shapes': [], 'violations': []}
    out = {'runs': 1, 'events': r['events'], 'lines': r['lines'], 'stats': r['stats'],
           'shapes': [r['shape']] if r['nontrivial'] else [], 'violations': [], 'harness_errors': [],
           'trace_digests': [r['digest']]}
    case.pop('_nested_cache', None)
    # determinism self-check: replaying the recorded decisions reproduces the digest
    if seed % 7 == 0 or r['violations']:
        r2 = run_case(copy.deepcopy(case))
        out['runs'] += 1
        out['stats']['replay_checked'] = 1
        if r2['digest'] != r['digest']:
            out['harness_errors'].append([seed, 'replay digest mismatch', r['digest'], r2['digest']])
    for v in r['violations']:
        out['violations'].append(dict(v, case=case))
    if seed % 400 == 0:
        out['sample'] = {'seed': seed, 'tasks': case['tasks'], 'shared': case['shared'],
                         'switches': case['switches'], 'faults': case['faults'], 'knobs': case['knobs'],
                         'digest': r['digest']}
    return out
