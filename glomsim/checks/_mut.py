"""Shared workload generation for the mutation checks (C11 assign, C12 delete)."""
from .. import build, canon, simrun
from ..models import pathedit

KEYS = ['a', 'b', 'c', 'd']
# names that coincide with glom's internal op codes ('x' = *, 'X' = **) and digit strings (a key of a
# mapping is never an index)
ODD_KEYS = ['x', 'X', '0', '1', 'P', '', 'e\\', '*', '**']
# ('' : an empty segment of a text path is the empty key; 'e\\' : a backslash is an ordinary character;
#  '*' / '**' : literal keys when given as Path('*') / T['*'] -- only the TEXT forms are wildcards)
LEAVES = [0, 1, 7, 'x', 'yy', None, True]


class TG:
    """target-graph generator: dicts, OrderedDicts, lists, tuples, frozensets, strings, attribute
    objects, slotted objects, read-only properties, builtin subclasses (with and without __dict__),
    simulator-owned containers; shared nodes and (sometimes) a cycle"""

    def __init__(self, rng, sim=0.4, exotic=0.25):
        self.rng, self.sim, self.exotic = rng, sim, exotic
        self.nid = 0
        self.made = []       # nids of containers already generated (for sharing)

    def n(self):
        self.nid += 1
        return self.nid

    def node(self, depth=0):
        rng = self.rng
        if depth >= 3 or (depth > 0 and rng.random() < 0.25):
            r = rng.random()
            if r < 0.75:
                return rng.choice(LEAVES)
            if r < 0.85:
                return {'t': 'tuple', 'n': self.n(), 'v': [1, 2]}
            if r < 0.92:
                return {'t': 'frozenset', 'n': self.n(), 'v': [1]}
            return {'t': 'list', 'n': self.n(), 'v': []}
        if self.made and depth > 0 and rng.random() < 0.08:
            return {'t': 'ref', 'n': rng.choice(self.made)}
        r = rng.random()
        sim = rng.random() < self.sim
        ex = rng.random() < self.exotic
        if r < 0.5:
            t = 'simdict' if sim else (rng.choice(['odict', 'mydict', 'slotdict']) if ex else 'dict')
            nid = self.n()
            keys = rng.sample(KEYS if rng.random() < 0.8 else KEYS + ODD_KEYS, rng.randint(0, 3))
            v = [[k, self.node(depth + 1)] for k in keys]
            if rng.random() < 0.15:
                v.append([rng.choice([0, 1, 2]), self.node(depth + 1)])      # int key
            self.made.append(nid)
            return {'t': t, 'n': nid, 'v': v}
        if r < 0.75:
            t = 'simlist' if sim else (rng.choice(['mylist', 'slotlist']) if ex else 'list')
            nid = self.n()
            v = [self.node(depth + 1) for _ in range(rng.randint(0, 3))]
            self.made.append(nid)
            return {'t': t, 'n': nid, 'v': v}
        if r < 0.82:
            nid = self.n()
            return {'t': 'mytuple' if ex else 'tuple', 'n': nid, 'v': [self.node(depth + 1) for _ in range(rng.randint(1, 2))]}
        t = 'simobj' if sim else (rng.choice(['roprop', 'slotted']) if ex else 'obj')
        nid = self.n()
        keys = rng.sample(['a', 'b'], rng.randint(0, 2)) if t == 'slotted' else \
            rng.sample(KEYS if rng.random() < 0.8 else KEYS + ['x', 'X'], rng.randint(0, 3))
        v = [[k, self.node(depth + 1)] for k in keys]
        self.made.append(nid)
        return {'t': t, 'n': nid, 'v': v}

    def hetero_root(self):
        """a target whose 'rows' are siblings of different kinds sharing the key 'k' / index 1: wildcard
        operations must treat every match by its own type"""
        rng = self.rng
        self.made, self.nid = [], 0
        kinds = ['dict', 'obj', 'simdict', 'list', 'odict', 'simobj', 'simlist', 'mydict']
        rows = []
        for kd in rng.sample(kinds, rng.randint(2, 4)):
            if kd in ('list', 'simlist'):
                rows.append({'t': kd, 'n': self.n(), 'v': [rng.choice(LEAVES) for _ in range(rng.randint(0, 3))]})
            else:
                keys = rng.sample(['k', '1', 'a'], rng.randint(1, 3))
                rows.append({'t': kd, 'n': self.n(), 'v': [[k, rng.choice(LEAVES)] for k in keys]})
        if rng.random() < 0.5 and rows:
            # two EQUAL but distinct rows: every match is its own object
            import copy as _copy
            dup = _copy.deepcopy(rng.choice(rows))
            dup['n'] = self.n()
            rows.insert(rng.randint(0, len(rows)), dup)
        holder = rng.choice(['list', 'dict', 'simlist'])
        if holder == 'dict':
            rowsv = {'t': 'dict', 'n': self.n(), 'v': [[f'r{i}', r] for i, r in enumerate(rows)]}
        else:
            rowsv = {'t': holder, 'n': self.n(), 'v': rows}
        return {'t': 'dict', 'n': self.n(), 'v': [['rows', rowsv], ['other', 1]]}

    def root(self):
        while True:
            self.made = []
            self.nid = 0
            r = self.node(0)
            if isinstance(r, dict) and r['t'] not in ('ref', 'tuple', 'mytuple', 'frozenset'):
                return r


def resolve(recipe, table):
    if isinstance(recipe, dict) and recipe.get('t') == 'ref':
        return table.get(recipe['n'])
    return recipe


def index_nodes(recipe, table=None):
    table = {} if table is None else table
    if isinstance(recipe, dict) and 'v' in recipe and isinstance(recipe['v'], list):
        if recipe.get('n') is not None and recipe['t'] != 'ref':
            table[recipe['n']] = recipe
        for x in recipe['v']:
            if isinstance(x, list):
                for y in x:
                    index_nodes(y, table)
            else:
                index_nodes(x, table)
    return table


def hetero_segs(rng):
    style = rng.choice(['str', 'Path', 'mixed'])
    last = rng.choice(['k', '1', 'a'])
    if style == 'str':
        return [['P', 'rows'], ['x', None], ['P', last]], 'str'
    if style == 'Path':
        return [['P', 'rows'], ['x', None], ['P', last if rng.random() < 0.6 else 1]], 'Path'
    return [['[', 'rows'], ['x', None], ['P', last]], 'mixed'


def gen_segs(rng, root, allow_wild=False, p_absent=0.3, for_delete=False):
    """walk the recipe shape and produce path segments [[op, arg], ...]; ops are 'P', '[', '.',
    'x'.  Returns (segs, style)"""
    table = index_nodes(root)
    style = rng.choice(['str', 'str', 'Path', 'T', 'T', 'mixed'])
    segs = []
    cur = root
    n = rng.randint(1, 4)
    absent = False
    for i in range(n):
        cur = resolve(cur, table)
        last = i == n - 1
        kind = cur['t'] if isinstance(cur, dict) else None
        is_map = kind in ('dict', 'odict', 'mydict', 'slotdict', 'simdict')
        is_seq = kind in ('list', 'mylist', 'slotlist', 'simlist', 'tuple', 'mytuple')
        is_obj = kind in ('obj', 'simobj', 'roprop', 'slotted')
        if kind == 'mytuple' and last and rng.random() < 0.4:
            # a tuple subclass with an instance __dict__: attributes of it can be set and deleted
            is_seq, is_obj = False, True
            cur = dict(cur, v=[])
        if allow_wild and not last and not absent and (is_map or is_seq or is_obj) and rng.random() < 0.25:
            segs.append(['X' if rng.random() < 0.3 else 'x', None])
            ch = [v for _, v in cur['v']] if (is_map or is_obj) else list(cur['v'])
            cur = rng.choice(ch) if ch else None
            if cur is None:
                absent = True
            continue
        go_absent = absent or rng.random() < (p_absent if not last else 0.45)
        if is_map and not absent:
            keys = [k for k, _ in cur['v'] if not (style == 'str' and k in ('*', '**'))]
            if keys and not go_absent:
                k = rng.choice(keys)
                nxt = next(vv for kk, vv in cur['v'] if kk == k)
            else:
                k = rng.choice(['zz', 'new', 'q'] + ([9] if style != 'str' else []))
                nxt = None
            op = _op_for(rng, style, 'map', k)
        elif is_seq and not absent:
            ln = len(cur['v'])
            if ln and not go_absent:
                k = rng.randrange(ln)
                if rng.random() < 0.15:
                    k = k - ln      # negative index
                nxt = cur['v'][k]
            else:
                k = rng.choice([ln, ln + 3, 'bad', -ln - 1, -ln - 2, -2 * ln - 1] if style != 'T'
                               else [ln, ln + 3, -ln - 1, -2 * ln])
                nxt = None
            op = _op_for(rng, style, 'seq', k)
        elif is_obj and not absent:
            keys = [k for k, _ in cur['v']]
            if keys and not go_absent:
                k = rng.choice(keys)
                nxt = next(vv for kk, vv in cur['v'] if kk == k)
            else:
                k = rng.choice(['zz', 'new', 'ro'] if kind == 'roprop' else
                               (['zz', 'new', 'klass_default'] if kind == 'obj' else ['zz', 'new']))
                nxt = None
            op = _op_for(rng, style, 'obj', k)
        else:
            # walking below a leaf or below an absent segment
            k = rng.choice(['zz', 'k', 0] if style != 'str' else ['zz', 'k', '0'])
            nxt = None
            op = _op_for(rng, style, 'map' if not isinstance(k, int) else 'seq', k)
        if style == 'str':
            k = str(k)
        segs.append([op, k])
        if nxt is None:
            absent = True
        cur = nxt
    if segs[-1][0] in ('x', 'X'):
        segs.append([_op_for(rng, style, 'map', 'w'), 'w'])
    return segs, style


def _op_for(rng, style, ckind, key):
    if style in ('str', 'Path'):
        return 'P'
    if style in ('T', 'mixed') and isinstance(key, str) and key.isidentifier() and rng.random() < 0.08:
        # the "other" spelling: an attribute step on a mapping, an item step on an object (each means
        # what it means in Python, whatever the container would have preferred)
        return '[' if ckind == 'obj' else '.'
    if style == 'T':
        if ckind == 'obj' and isinstance(key, str):
            return '.'
        return '['
    # mixed
    r = rng.random()
    if r < 0.4:
        return 'P'
    if ckind == 'obj' and isinstance(key, str):
        return '.'
    return '['


def render_path(segs, style):
    """segments -> path recipe for Assign/Delete: ['str', text] | ['Path', parts] | ['T', 'T', ops]"""
    if style == 'str':
        return ['str', '.'.join('*' if op == 'x' else '**' if op == 'X' else str(arg) for op, arg in segs)]
    if style == 'T' and all(op in ('.', '[', 'x', 'X') for op, _ in segs):
        return ['T', 'T', [[op, arg] for op, arg in segs]]
    parts = []
    run = []
    for op, arg in segs:
        if op == 'P':
            if run:
                parts.append({'t': 'spec', 'v': ['T', 'T', run]})
                run = []
            parts.append(arg)
        else:
            run.append([op, arg])
    if run:
        parts.append({'t': 'spec', 'v': ['T', 'T', run]})
    return ['Path', parts]


def str_path_segs(text):
    return [['x', None] if s == '*' else ['X', None] if s == '**' else ['P', s] for s in text.split('.')]


class Shadow:
    """a second build of the target recipe, never touched by glom"""

    def __init__(self, G, target_recipe):
        self.k = simrun.make_kernel(G, seed=0)
        self.B = build.Builder(G, self.k)
        self.root = self.B.value(target_recipe)
