"""Where to aim line-level pre-emption.

Uniform line pre-emption spends almost all of its switches in code that touches nothing shared.  The
check-then-act windows that matter sit in the few functions that read and write *long-lived
containers* (the path cache, the handler memo, registries, per-class tables).  Those functions are
found from the tree under test itself -- no list of names is kept here, so a renamed or newly added
cache is picked up the next time the sources change:

  shared names  = names bound, at module level, at class level or as ``self.<name>`` in an ``__init__``,
                  to a dict / list / set display or to a call of a container type;
  candidates    = functions whose body mentions one of those names.

A line-mode run may pick ONE candidate (by index, recorded in the case) and pre-empt at every line of it
with a high probability, on top of the uniform rate.
"""
import ast
import os

_CONTAINER_CALLS = {'dict', 'list', 'set', 'OrderedDict', 'defaultdict', 'deque', 'WeakKeyDictionary',
                    'WeakValueDictionary', 'ChainMap', 'Counter'}
_MUTATORS = {'clear', 'pop', 'popitem', 'setdefault', 'update', 'append', 'extend', 'insert', 'remove', 'add', 'discard',
             'move_to_end', 'appendleft'}
_CACHE = {}


def _is_container(node):
    if isinstance(node, (ast.Dict, ast.List, ast.Set, ast.DictComp, ast.ListComp, ast.SetComp)):
        return True
    if isinstance(node, ast.Call):
        f = node.func
        name = f.id if isinstance(f, ast.Name) else (f.attr if isinstance(f, ast.Attribute) else None)
        return name in _CONTAINER_CALLS
    return False


def _shared_names(tree):
    names = set()

    def targets(stmt):
        if isinstance(stmt, ast.Assign):
            for t in stmt.targets:
                yield t, stmt.value
        elif isinstance(stmt, ast.AnnAssign) and stmt.value is not None:
            yield stmt.target, stmt.value
    for stmt in tree.body:
        for t, v in targets(stmt):
            if isinstance(t, ast.Name) and _is_container(v):
                names.add(t.id)
        if isinstance(stmt, ast.ClassDef):
            for s2 in stmt.body:
                for t, v in targets(s2):
                    if isinstance(t, ast.Name) and _is_container(v):
                        names.add(t.id)
                if isinstance(s2, ast.FunctionDef) and s2.name == '__init__':
                    for s3 in ast.walk(s2):
                        for t, v in targets(s3) if isinstance(s3, (ast.Assign, ast.AnnAssign)) else ():
                            if isinstance(t, ast.Attribute) and isinstance(t.value, ast.Name) \
                                    and t.value.id == 'self' and _is_container(v):
                                names.add(t.attr)
    return names


def candidates(src_dir):
    """-> (sorted names of the functions that mention a shared container, those of them that WRITE to one)"""
    src_dir = src_dir.rstrip(os.sep)
    key = []
    for fn in sorted(os.listdir(src_dir)):
        if fn.endswith('.py'):
            st = os.stat(os.path.join(src_dir, fn))
            key.append((fn, st.st_mtime_ns, st.st_size))
    key = (src_dir, tuple(key))
    if key in _CACHE:
        return _CACHE[key]
    trees = []
    shared = set()
    for fn, _, _ in key[1]:
        try:
            with open(os.path.join(src_dir, fn), 'rb') as f:
                tree = ast.parse(f.read())
        except SyntaxError:
            continue
        trees.append(tree)
        shared |= _shared_names(tree)
    out, writers = set(), set()

    def refers(n):
        return (isinstance(n, ast.Name) and n.id in shared) or (isinstance(n, ast.Attribute) and n.attr in shared)

    def base_of(n):
        # cache[PATH_STAR][text] -> cache ... ; follow subscripts down to the name / attribute
        while isinstance(n, ast.Subscript):
            n = n.value
        return n
    for tree in trees:
        for node in ast.walk(tree):
            if isinstance(node, (ast.FunctionDef, ast.AsyncFunctionDef)):
                local_alias = set()
                for n in ast.walk(node):
                    # a local name bound to (a part of) a shared container counts as the container
                    if isinstance(n, ast.Assign) and len(n.targets) == 1 and isinstance(n.targets[0], ast.Name) \
                            and refers(base_of(n.value)):
                        local_alias.add(n.targets[0].id)
                for n in ast.walk(node):
                    if refers(n):
                        out.add(node.name)
                    tgt = None
                    if isinstance(n, ast.Subscript) and isinstance(n.ctx, (ast.Store, ast.Del)):
                        tgt = base_of(n)
                    elif isinstance(n, ast.Call) and isinstance(n.func, ast.Attribute) and n.func.attr in _MUTATORS:
                        tgt = base_of(n.func.value)
                    elif isinstance(n, ast.Attribute) and isinstance(n.ctx, ast.Store) and n.attr in shared:
                        tgt = n
                    if tgt is not None and (refers(tgt) or (isinstance(tgt, ast.Name) and tgt.id in local_alias)):
                        writers.add(node.name)
    _CACHE.clear()
    _CACHE[key] = (sorted(out), sorted(writers))
    return _CACHE[key]
