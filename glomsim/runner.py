"""Batch driver: seeds -> worker processes -> aggregation -> minimisation -> replay files ->
VIOLATION / KNOWN-FINDING lines -> evidence JSON -> exit code.

Exit codes: 0 = property held on everything explored (known findings are reported, not counted)
            1 = at least one VIOLATION line
            2 = harness error / timeout (never a pass, never a violation)
"""
import concurrent.futures as cf
import faulthandler
import hashlib
import importlib
import json
import multiprocessing
import os
import subprocess
import sys
import time
import traceback

from . import loader, shrink

VERIF = os.path.dirname(os.path.dirname(os.path.abspath(__file__)))
_OUT = os.environ.get('VERIF_OUT') or VERIF      # sensitivity runs write elsewhere
REPLAYS = os.path.join(_OUT, 'replays')
EVIDENCE = os.path.join(_OUT, 'evidence')
KNOWN = os.path.join(VERIF, 'known_findings.txt')

COMPONENTS = {
    'real': ['glom.core', 'glom.matching', 'glom.mutation', 'glom.reduction', 'glom.grouping',
             'glom.streaming', 'glom.cli', 'boltons', 'face'],
    'stub': ['targets/callables/iterators/factories/handlers (glomsim.collab)',
             'thread scheduler (glomsim.kernel baton)', 'CLI filesystem/stdin/stdout (C19 only)'],
}


def check_module(prop):
    return importlib.import_module(f'glomsim.checks.{prop.lower()}')


def load_known(prop):
    out = {}
    fixed = []
    if os.path.exists(KNOWN):
        for line in open(KNOWN):
            line = line.strip()
            if line.startswith('finding:') and f'property={prop} ' in line:
                head, _, what = line.partition('::')
                sig = None
                for tok in head.split():
                    if tok.startswith('sig='):
                        sig = tok[4:]
                if sig:
                    out[sig] = what.strip()
            elif line.startswith('fixed:') and f'property={prop} ' in line:
                fixed.append(line)
    return out, fixed


def _worker(args):
    prop, seeds, tier, opts = args
    faulthandler.enable()
    mod = check_module(prop)
    agg = new_agg()
    for s in seeds:
        faulthandler.dump_traceback_later(opts.get('seed_timeout', 300), exit=True)
        try:
            r = mod.run_seed(s, tier)
        except BaseException as e:
            agg['harness_errors'].append([s, ''.join(traceback.format_exception(type(e), e, e.__traceback__))[-3000:]])
            continue
        finally:
            faulthandler.cancel_dump_traceback_later()
        r.setdefault('digests', {})[str(s)] = seed_digest(r)
        merge_agg(agg, r)
        if opts.get('deadline') and time.time() > opts['deadline']:
            agg['cut_short'] = True
            break
    agg['shapes'] = sorted(agg['shapes'])
    return agg


def seed_digest(r):
    return hashlib.sha1(json.dumps(
        [r.get('runs'), r.get('events'), sorted(r.get('stats', {}).items()), r.get('trace_digests'),
         sorted(r.get('shapes', [])), [[v['clause'], v['sig']] for v in r.get('violations', [])]],
        sort_keys=True, default=str).encode()).hexdigest()[:16]


def new_agg():
    return {'runs': 0, 'seeds': 0, 'events': 0, 'lines': 0, 'stats': {}, 'shapes': set(),
            'violations': [], 'samples': [], 'harness_errors': [], 'digests': {}}


def merge_agg(agg, r):
    agg['seeds'] += r.get('seeds', 1)
    agg['runs'] += r.get('runs', 0)
    agg['events'] += r.get('events', 0)
    agg['lines'] += r.get('lines', 0)
    for k, v in r.get('stats', {}).items():
        agg['stats'][k] = agg['stats'].get(k, 0) + v
    sh = r.get('shapes', ())
    if isinstance(agg['shapes'], list):
        agg['shapes'] = set(agg['shapes'])
    agg['shapes'].update(sh)
    # keep a few witnesses PER SIGNATURE (a frequent known finding must not crowd out anything else)
    totals = agg.setdefault('sig_counts', {})
    kept = agg.setdefault('sig_kept', {})
    fwd = {}
    for v in r.get('violations', []):
        sig = v['sig']
        fwd[sig] = fwd.get(sig, 0) + 1
        if kept.get(sig, 0) < 3 and len(agg['violations']) < 150:
            kept[sig] = kept.get(sig, 0) + 1
            agg['violations'].append(v)
    sub = r.get('sig_counts')
    for sig, n in (sub if sub is not None else fwd).items():
        totals[sig] = totals.get(sig, 0) + n
    agg['n_violations_raw'] = agg.get('n_violations_raw', 0) + len(r.get('violations', []))
    if len(agg['samples']) < 3 and r.get('sample') is not None:
        agg['samples'].append(r['sample'])
    for smp in r.get('samples') or []:          # (a worker's aggregate carries a list)
        if len(agg['samples']) < 3:
            agg['samples'].append(smp)
    agg['harness_errors'].extend(r.get('harness_errors', []))
    agg['digests'].update(r.get('digests', {}))
    if r.get('cut_short'):
        agg['cut_short'] = True


def run_batch(prop, tier, base_seed, nproc=None, n_seeds=None, wall=None, quiet=False):
    mod = check_module(prop)
    bud = mod.budget(tier)
    n_seeds = n_seeds or bud['seeds']
    wall = wall or bud.get('wall', 240)
    nproc = nproc or min(16, os.cpu_count() or 4)
    seeds = [base_seed * 1_000_003 + i for i in range(n_seeds)]
    t0 = time.time()
    deadline = t0 + wall
    chunk = max(1, min(bud.get('chunk', 25), (n_seeds + nproc * 4 - 1) // (nproc * 4)))
    chunks = [seeds[i:i + chunk] for i in range(0, len(seeds), chunk)]
    opts = {'deadline': deadline, 'seed_timeout': bud.get('seed_timeout', 300)}
    agg = new_agg()
    ctx = multiprocessing.get_context('fork')
    broken = False
    with cf.ProcessPoolExecutor(max_workers=nproc, mp_context=ctx) as ex:
        futs = [ex.submit(_worker, (prop, c, tier, opts)) for c in chunks]
        try:
            for f in cf.as_completed(futs, timeout=wall + 120):
                try:
                    merge_agg(agg, f.result())
                except Exception as e:
                    agg['harness_errors'].append(['worker', repr(e)])
                    broken = True
        except cf.TimeoutError:
            agg['harness_errors'].append(['batch', 'wall-clock timeout'])
            broken = True
            for f in futs:
                f.cancel()
    agg['wall'] = time.time() - t0
    agg['n_seeds_planned'] = n_seeds
    return mod, agg, broken


# wall-clock spent on minimising witnesses (sensitivity tools that only need the verdict set it low)
SHRINK_TOTAL_S = float(os.environ.get('GLOMSIM_SHRINK_S', '150'))


def report(prop, tier, base_seed, mod, agg, broken, quiet=False):
    known, fixed = load_known(prop)
    os.makedirs(REPLAYS, exist_ok=True)
    os.makedirs(EVIDENCE, exist_ok=True)
    lines = []
    n_viol = 0
    known_hits = {}
    seen_sigs = {}
    t_shrink0 = time.time()
    for v in agg['violations']:
        sig = v['sig']
        if sig in known:
            known_hits[sig] = agg.get('sig_counts', {}).get(sig, 1)
            continue
        if sig in seen_sigs:
            seen_sigs[sig] += 1
            continue
        if len(seen_sigs) >= 4 or time.time() - t_shrink0 > SHRINK_TOTAL_S:
            seen_sigs[sig] = 1
            n_viol += 1
            path = write_replay(prop, v['case'], v, minimised=False)
            lines.append(f'VIOLATION property={prop} replay={path}')
            continue
        seen_sigs[sig] = 1
        case, viol = shrink.minimise(mod, v['case'], v, budget_s=min(40, SHRINK_TOTAL_S), max_runs=2500)
        path = write_replay(prop, case, viol, minimised=True)
        ok, note = verify_replay(prop, path, viol)
        if not ok:
            agg['harness_errors'].append(['replay-mismatch', path, note])
            broken = True
            lines.append(f'HARNESS-ERROR property={prop} replay {path} did not reproduce: {note}')
            continue
        n_viol += 1
        lines.append(f'VIOLATION property={prop} replay={path}')
        lines.append(f'  clause={viol["clause"]} sig={viol["sig"]}')
        lines.append(f'  expected={json.dumps(viol.get("expected"), default=str)[:400]}')
        lines.append(f'  observed={json.dumps(viol.get("observed"), default=str)[:400]}')
    for sig, n in sorted(known_hits.items()):
        lines.append(f'KNOWN-FINDING: property={prop} {known[sig]} [sig={sig}, seen {n}x this run]')
    for sig in sorted(known):
        if sig not in known_hits:
            lines.append(f'NOTE: listed finding not reproduced in this run: property={prop} sig={sig}')
    for he in agg['harness_errors'][:5]:
        lines.append('HARNESS-ERROR ' + json.dumps(he, default=str)[:1500])
    if agg['harness_errors']:
        broken = True
    write_evidence(prop, tier, base_seed, mod, agg, n_viol, known_hits)
    if not quiet:
        for l in lines:
            print(l)
        st = agg['stats']
        print(f'[{prop} {tier}] seed={base_seed} seeds={agg["seeds"]}/{agg["n_seeds_planned"]} '
              f'runs={agg["runs"]} events={agg["events"]} lines={agg["lines"]} '
              f'distinct={len(agg["shapes"])} violations={n_viol} '
              f'known={sum(known_hits.values())} wall={agg["wall"]:.1f}s'
              + (' CUT-SHORT(wall)' if agg.get('cut_short') else ''))
        print('  stats: ' + json.dumps(dict(sorted(st.items()))))
    if n_viol:
        return 1
    if broken:
        return 2
    return 0


def write_replay(prop, case, viol, minimised):
    body = {
        'property': prop, 'clause': viol['clause'], 'sig': viol['sig'],
        'expected': viol.get('expected'), 'observed': viol.get('observed'),
        'digest': viol.get('digest'), 'minimised': minimised,
        'src_fingerprint': loader.src_fingerprint(),
        'repro': viol.get('repro'),
        'case': case,
    }
    blob = json.dumps(body, indent=1, default=str)   # (no sort_keys: dict order is part of a case)
    name = f'{prop}-{viol["clause"]}-{hashlib.sha1(blob.encode()).hexdigest()[:10]}.json'
    name = name.replace('/', '_')
    path = os.path.join(REPLAYS, name)
    with open(path, 'w') as f:
        f.write(blob)
    return path


def replay_file(path):
    """re-execute a replay file; prints REPLAY lines; exit 1 if the violation reproduces"""
    body = json.load(open(path))
    prop = body['property']
    mod = check_module(prop)
    res = mod.run_case(body['case'])
    viols = res['violations']
    same = [v for v in viols if v['clause'] == body['clause'] and v['sig'] == body['sig']]
    print(f'REPLAY property={prop} file={path}')
    print(f'  recorded: clause={body["clause"]} sig={body["sig"]} digest={body.get("digest")}')
    if same:
        v = same[0]
        print(f'  observed: clause={v["clause"]} sig={v["sig"]} digest={v.get("digest")}')
        print(f'  expected={json.dumps(v.get("expected"), default=str)[:600]}')
        print(f'  observed={json.dumps(v.get("observed"), default=str)[:600]}')
        det = (v.get('digest') == body.get('digest'))
        print(f'REPRODUCED digest_match={det}')
        print(f'VIOLATION property={prop} replay={path}')
        return 1
    print('  NOT REPRODUCED; violations seen: ' + json.dumps([[v['clause'], v['sig']] for v in viols]))
    return 0


def verify_replay(prop, path, viol):
    """replay in a fresh interpreter: must reproduce the same clause, sig and digest"""
    env = dict(os.environ)
    env['PYTHONHASHSEED'] = '0'
    try:
        p = subprocess.run([sys.executable, os.path.join(VERIF, 'run_check.py'), '--replay', path],
                           capture_output=True, text=True, timeout=120, env=env, cwd=VERIF)
    except subprocess.TimeoutExpired:
        return False, 'timeout'
    if p.returncode != 1 or 'REPRODUCED digest_match=True' not in p.stdout:
        return False, (p.stdout[-800:] + p.stderr[-800:])
    return True, ''


def write_evidence(prop, tier, base_seed, mod, agg, n_viol, known_hits):
    st = dict(sorted(agg['stats'].items()))
    wall = max(agg['wall'], 1e-6)
    faults = {k[6:]: v for k, v in st.items() if k.startswith('fault.')}
    reach = {k[6:]: v for k, v in st.items() if k.startswith('reach.')}
    cov = {
        'evaluations': int(agg['runs']),
        'distinct_nontrivial': len(agg['shapes']),
        'rule': mod.RULE,
        'samples': agg['samples'][:3] or [{'note': 'no sample recorded'}],
        'seeds_run': agg['seeds'],
        'seeds_planned': agg['n_seeds_planned'],
        'simulated_runs_per_hour': int(agg['runs'] / wall * 3600),
        'seeds_per_hour': int(agg['seeds'] / wall * 3600),
        'simulated_time': 'glom reads no clock; logical time = collaborator events + line events',
        'collaborator_events': agg['events'],
        'line_events': agg['lines'],
        'faults_fired_by_kind': faults,
        'reach_probes': reach,
        'counters': {k: v for k, v in st.items() if not k.startswith(('fault.', 'reach.'))},
        'components': COMPONENTS,
        'known_findings_reproduced': known_hits,
        'raw_violations': agg.get('n_violations_raw', 0),
        'harness_errors': len(agg['harness_errors']),
        'cut_short_by_wall_clock': bool(agg.get('cut_short')),
        'src_fingerprint': loader.src_fingerprint(),
        'exhaustive': False,
    }
    ev = {
        'property_id': prop, 'tier': tier, 'seed': int(base_seed), 'level': mod.LEVEL,
        'coverage': cov, 'assumptions': mod.ASSUMPTIONS, 'wall_s': round(agg['wall'], 2),
        'violations': n_viol,
    }
    with open(os.path.join(EVIDENCE, f'{prop}.json'), 'w') as f:
        json.dump(ev, f, indent=1, default=str)
