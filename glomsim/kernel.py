"""Simulation kernel: event log, keyed fault decisions, baton scheduler, line-level tracing.

One Kernel = one simulated run.  Everything the run does that is not a pure function of the
code under test is decided here, from explicit decision maps (replay) or from a PRNG seeded by
the run seed (generation; the drawn decisions are recorded into the same explicit maps, so that
a finished run can always be written out as a replay file that does not depend on PRNG stream
alignment).

Identity of a decision point
    fault points:  (task, site, nth)   nth = how many times this task has reached this site
    yield points:  a global counter `yp` (only one task is ever runnable, so it is deterministic)
    line events:   a global counter `ln` over 'line' trace events inside the glom sources
"""
import hashlib
import json
import sys
import threading

from . import catalogue, sitekind
from .simthreading import SimDeadlock


class SimBudgetExceeded(BaseException):
    """the run exceeded its step budget (harness verdict, not a glom exception)"""


class SimHarnessError(Exception):
    """the simulator itself got into a state it cannot explain"""


class LineCrash(Exception):
    """Exception-class crash injected at a line event (F8)"""
    def __init__(self, *a):
        super().__init__(*a)


class LineCrashBase(BaseException):
    """BaseException-class crash injected at a line event (F8)"""


def fkey(task, site, nth):
    return f'{task}:{site}#{nth}'


class Kernel:
    def __init__(self, seed=0, faults=None, switches=None, gen_rng=None,
                 p_point=0.0, p_line=0.0, trace_dir=None, line_crash=None,
                 max_events=4000, max_lines=400000, count_lines=False,
                 fault_gen=None, cat=None, counts_init=None, shim=None):
        self.cat = cat if cat is not None else catalogue.Catalogue(None)
        self.seed = seed
        self.faults = dict(faults or {})        # fkey -> fault descriptor (see catalogue.make_exc)
        self.switches = dict((int(k), v) for k, v in (switches or {}).items())  # yp -> task id
        self.gen_rng = gen_rng                  # only in generation mode
        self.p_point, self.p_line = p_point, p_line
        self.fault_gen = fault_gen              # callable(task, site, nth, kind) -> descriptor|None
        self.trace_dir = trace_dir
        self.line_crash = line_crash            # {'at': k, 'exc': 'Exception'|'BaseException'} or None
        self.count_lines = count_lines
        self.max_events, self.max_lines = max_events, max_lines
        self.log = []                           # [task, site, nth, kind, detail]
        self.counts = {}                        # (task, site) -> n
        for key, n in (counts_init or []):
            self.counts[(key[0], key[1])] = n
        self.fired = []                         # [fkey, class name]
        self.fault_objs = {}                    # marker -> exception object
        self.yp = 0
        self.ln = 0
        self.n_switches = 0
        self.switch_seq = []
        self.cur_task = 0
        self.tasks = None
        self.crashed_at = None
        self._local = threading.local()
        self.reach = {}
        self.focus_fn = None                    # name of ONE function whose lines are pre-empted eagerly
        self.p_focus = 0.35
        self.shim = shim                        # the instance's simulated ``threading`` module
        self.blocked = {}                       # task id -> lock it waits for
        self.deadlock = None

    # ---------------------------------------------------------------- log
    def hit(self, name, n=1):
        self.reach[name] = self.reach.get(name, 0) + n

    def event(self, site, kind, detail=None):
        """count + log one collaborator event; returns nth"""
        task = self.cur_task
        key = (task, site)
        nth = self.counts.get(key, 0)
        self.counts[key] = nth + 1
        self.log.append([task, site, nth, kind, detail])
        if len(self.log) > self.max_events:
            raise SimBudgetExceeded('events')
        return nth

    def digest(self):
        h = hashlib.sha256(json.dumps(self.log, sort_keys=True, default=str).encode())
        h.update(json.dumps([self.switch_seq, self.fired, self.crashed_at]).encode())
        if self.deadlock is not None:
            h.update(json.dumps(self.deadlock, sort_keys=True).encode())
        return h.hexdigest()[:20]

    def task_log(self, task):
        return [e[1:] for e in self.log if e[0] == task]

    # ---------------------------------------------------------------- faults
    def point(self, site, kind, detail=None, can_fault=True):
        """a collaborator point: log, maybe fault (before the collaborator acts), maybe switch"""
        nth = self.event(site, kind, detail)
        task = self.cur_task
        if can_fault:
            k = fkey(task, site, nth)
            desc = self.faults.get(k)
            if desc is None and self.fault_gen is not None:
                desc = self.fault_gen(task, site, nth, kind)
                if desc is not None:
                    self.faults[k] = desc
            if desc is not None:
                exc = self.cat.make(desc, marker=k)
                sk = sitekind.classify(self.trace_dir, kind) if self.trace_dir else {'kind': 'unknown'}
                self.fired.append([k, desc['cls'], sk])
                self.fault_objs[k] = exc
                self.log[-1].append('FAULT:' + desc['cls'])
                self.yield_point()
                raise exc
        self.yield_point()
        return nth

    # ---------------------------------------------------------------- scheduler
    def yield_point(self, line=False, focus=False):
        tasks = self.tasks
        if tasks is None or len(tasks) < 2:
            return
        self.yp += 1
        me = self.cur_task
        target = None
        if self.gen_rng is not None:
            p = self.p_line if line else self.p_point
            if focus:
                p = max(p, self.p_focus)
            if p and self.gen_rng.random() < p:
                others = [t.tid for t in tasks if not t.done and t.tid != me and not self._is_blocked(t.tid)]
                if others:
                    target = self.gen_rng.choice(others)
                    self.switches[self.yp] = target
        else:
            target = self.switches.get(self.yp)
            if target is not None and (target == me or target >= len(tasks) or tasks[target].done
                                       or self._is_blocked(target)):
                target = None
        if target is None:
            return
        self._switch_to(target, park=True)

    # ---------------------------------------------------------------- simulated locks
    def _is_blocked(self, tid):
        lock = self.blocked.get(tid)
        return lock is not None and lock.owner is not None

    def lock_wait(self, lock, me):
        """task *me* wants *lock*, which another task holds: run somebody else until it is free.
        Who runs is a forced choice point (recorded in the switch map like a finished task's)"""
        tid = me[2]
        self.hit('lock.contended')
        self.blocked[tid] = lock
        try:
            while lock.owner is not None:
                if self.deadlock is not None:
                    raise SimDeadlock('deadlock')
                self.yp += 1
                cands = [t.tid for t in self.tasks if not t.done and t.tid != tid and not self._is_blocked(t.tid)]
                if not cands:
                    self.deadlock = {'kind': 'cycle', 'task': tid,
                                     'waiting': sorted(self.blocked)}
                    self.hit('lock.deadlock')
                    raise SimDeadlock('every live task waits for a lock')
                if self.gen_rng is not None:
                    target = self.gen_rng.choice(cands)
                    self.switches[self.yp] = target
                else:
                    target = self.switches.get(self.yp)
                    if target not in cands:
                        target = cands[0]
                self._switch_to(target, park=True)
        finally:
            self.blocked.pop(tid, None)

    def _switch_to(self, target, park):
        me = self.cur_task
        self.n_switches += 1
        self.switch_seq.append([self.yp, target])
        self.cur_task = target
        tasks = self.tasks
        tasks[target].sem.release()
        if park:
            if not tasks[me].sem.acquire(timeout=60):
                raise SimHarnessError('baton lost')
            if self.deadlock is not None and me in self.blocked:
                raise SimDeadlock('deadlock')

    def _task_finished(self):
        """called by a finishing task: hand the baton to someone (a forced choice point)"""
        tasks = self.tasks
        me = self.cur_task
        self.yp += 1
        runnable = [t.tid for t in tasks if not t.done]
        if not runnable:
            self._all_done.set()
            return
        target = None
        if self.gen_rng is not None:
            target = self.gen_rng.choice(runnable)
            self.switches[self.yp] = target
        else:
            target = self.switches.get(self.yp)
            if target not in runnable:
                target = runnable[0]
        self.switch_seq.append([self.yp, target])
        self.cur_task = target
        tasks[target].sem.release()

    def _activate(self):
        if self.shim is not None:
            self.shim.kernel = self

    def run_single(self, thunk, task_id=0):
        """run one thunk on the calling thread as task *task_id* (no scheduling)"""
        self.tasks = None
        self.cur_task = task_id
        self._activate()
        if self.line_crash:
            # an exception raised from a trace function at a line inside an ``except`` body can leave
            # the interpreter's "currently handled exception" un-popped for the rest of the thread
            # (it would then show up as __context__ of every later error): crash runs get a thread of
            # their own, whose exception state dies with it
            box = []

            def body():
                try:
                    box.append(self._call(thunk))
                except SimBudgetExceeded as e:
                    box.append(e)
            th = threading.Thread(target=body, name='sim-crash-run')
            th.start()
            th.join(120)
            if not box:
                raise SimHarnessError('crash run did not finish')
            if isinstance(box[0], SimBudgetExceeded):
                raise box[0]
            return box[0]
        return self._call(thunk)

    def run_tasks(self, thunks, first=None):
        """run thunks as baton-passing tasks; returns list of ('ok', value)|('exc', exc)"""
        if len(thunks) == 1:
            return [self.run_single(thunks[0], 0)]
        self.tasks = [_Task(i, th) for i, th in enumerate(thunks)]
        self._activate()
        self.blocked = {}
        self.deadlock = None
        self._all_done = threading.Event()
        threads = []
        for t in self.tasks:
            th = threading.Thread(target=self._task_main, args=(t,), name=f'sim-task-{t.tid}',
                                  daemon=True)
            threads.append(th)
            th.start()
        # choice of the first task is yield point 0
        if self.gen_rng is not None:
            start = self.gen_rng.randrange(len(self.tasks)) if first is None else first
            self.switches[0] = start
        else:
            start = self.switches.get(0, 0)
            if not (0 <= start < len(self.tasks)):
                start = 0
        self.cur_task = start
        self.switch_seq.append([0, start])
        self.tasks[start].sem.release()
        if not self._all_done.wait(timeout=120):
            raise SimHarnessError('tasks did not finish')
        for th in threads:
            th.join(timeout=10)
        res = [t.result for t in self.tasks]
        self.tasks = None
        return res

    def _task_main(self, t):
        if not t.sem.acquire(timeout=120):
            return
        t.result = self._call(t.thunk)
        t.done = True
        self._task_finished()

    def _needs_trace(self):
        return bool(self.trace_dir) and bool(self.p_line or self.line_crash or self.count_lines
                                             or self._line_switches)

    def _call(self, thunk):
        tracing = self._needs_trace()
        if tracing:
            sys.settrace(self._gtrace)
        try:
            return ('ok', thunk())
        except SimBudgetExceeded:
            raise
        except BaseException as e:
            return ('exc', e)
        finally:
            if tracing:
                sys.settrace(None)

    # ---------------------------------------------------------------- tracing
    _line_switches = False

    def _at_with_edge(self, frame):
        shim = self.shim
        if shim is None or not getattr(shim, 'n_held', 0):
            return False
        import linecache
        return linecache.getline(frame.f_code.co_filename, frame.f_lineno).lstrip().startswith('with ')

    def enable_line_mode(self):
        """replay mode: line events must be counted as yield points"""
        self._line_switches = True

    def _gtrace(self, frame, event, arg):
        if frame.f_code.co_filename.startswith(self.trace_dir):
            return self._ltrace
        return None

    def _ltrace(self, frame, event, arg):
        if event == 'line':
            self.ln += 1
            if self.ln > self.max_lines:
                raise SimBudgetExceeded('lines')
            lc = self.line_crash
            if lc is not None and self.ln == lc['at'] + lc.get('_shift', 0):
                if self._at_with_edge(frame):
                    # an asynchronous exception that lands between the end of a ``with lock:`` body
                    # and the call of __exit__ leaves the lock held for good -- in any Python
                    # program; that edge is not a crash point (the body, and any region between a
                    # bare acquire() and release(), still is)
                    lc['_shift'] = lc.get('_shift', 0) + 1
                    return self._ltrace
                self.crashed_at = [frame.f_code.co_name, frame.f_lineno]
                if lc['exc'] == 'BaseException':
                    raise LineCrashBase('line-crash')
                raise LineCrash('line-crash')
            if self.tasks is not None and (self.p_line or self._line_switches):
                self.yield_point(line=True, focus=self.focus_fn is not None and frame.f_code.co_name == self.focus_fn)
        return self._ltrace


class _Task:
    def __init__(self, tid, thunk):
        self.tid, self.thunk = tid, thunk
        self.sem = threading.Semaphore(0)
        self.done = False
        self.result = None
